// props: C03 C02
// mount: src/reader/directory_pack/raw_value.rs
// C03.e: how the reader orders a stored integer (RawValue, any of the eight widths) against a searched value (common::Value, immediate or
// deferred): numerically, after widening to 64 bits; a value of the other signedness, a content address or an array is "not comparable"
// (None), never a wrong answer.  Sixteen copy-pasted arms; loop-free, full domains => complete.  (Arrays: Verus unit c03_readercmp.)
use super::*;
use std::cmp::Ordering;

fn num_u(r: u64, v: u64) -> Ordering {
    if r < v { Ordering::Less } else if r > v { Ordering::Greater } else { Ordering::Equal }
}
fn num_s(r: i64, v: i64) -> Ordering {
    if r < v { Ordering::Less } else if r > v { Ordering::Greater } else { Ordering::Equal }
}
fn any_unsigned_raw() -> (RawValue, u64) {
    let w: u8 = kani::any();
    match w % 4 {
        0 => { let r: u8 = kani::any(); (RawValue::U8(r), r as u64) }
        1 => { let r: u16 = kani::any(); (RawValue::U16(r), r as u64) }
        2 => { let r: u32 = kani::any(); (RawValue::U32(r), r as u64) }
        _ => { let r: u64 = kani::any(); (RawValue::U64(r), r) }
    }
}
fn any_signed_raw() -> (RawValue, i64) {
    let w: u8 = kani::any();
    match w % 4 {
        0 => { let r: i8 = kani::any(); (RawValue::I8(r), r as i64) }
        1 => { let r: i16 = kani::any(); (RawValue::I16(r), r as i64) }
        2 => { let r: i32 = kani::any(); (RawValue::I32(r), r as i64) }
        _ => { let r: i64 = kani::any(); (RawValue::I64(r), r) }
    }
}

// oblig: C03.e.rawvalue_cmp_unsigned kind=complete timeout=600 tier=quick
#[kani::proof]
#[kani::unwind(4)]
fn k_c03_rawcmp_unsigned() {
    let (raw, r) = any_unsigned_raw();
    let v: u64 = kani::any();
    let deferred: bool = kani::any();
    let other = if deferred { Value::UnsignedWord(Word::from(v)) } else { Value::Unsigned(v) };
    match raw.partial_cmp(&other) {
        Ok(Some(o)) => assert!(o == num_u(r, v)),
        _ => assert!(false),
    }
    // the other signedness is not comparable
    let s: i64 = kani::any();
    assert!(matches!(raw.partial_cmp(&Value::Signed(s)), Ok(None)));
    kani::cover!(deferred && r > 0xFFFF_FFFF);
    core::mem::forget(other);
}

// oblig: C03.e.rawvalue_cmp_signed kind=complete timeout=600 tier=quick
#[kani::proof]
#[kani::unwind(4)]
fn k_c03_rawcmp_signed() {
    let (raw, r) = any_signed_raw();
    let v: i64 = kani::any();
    let deferred: bool = kani::any();
    let other = if deferred { Value::SignedWord(Word::from(v)) } else { Value::Signed(v) };
    match raw.partial_cmp(&other) {
        Ok(Some(o)) => assert!(o == num_s(r, v)),
        _ => assert!(false),
    }
    let u: u64 = kani::any();
    assert!(matches!(raw.partial_cmp(&Value::Unsigned(u)), Ok(None)));
    kani::cover!(deferred && r < 0 && v > 0);
    core::mem::forget(other);
}
