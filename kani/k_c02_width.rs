// props: C02 C15
// mount: src/creator/directory_pack/schema/property.rs
// C02.a: the width chosen for an integer column holds every value processed (arithmetic only, full domain, loop bounded by
// the operand width => complete).  Two values stand for any number: Auto(max) is a running maximum.
use super::*;

fn fits_u(v: u64, n: usize) -> bool {
    n >= 8 || v < (1u64 << (8 * n))
}
fn fits_s(v: i64, n: usize) -> bool {
    n >= 8 || (-(1i64 << (8 * n - 1)) <= v && v < (1i64 << (8 * n - 1)))
}

// oblig: C02.a.unsigned_width kind=complete
#[kani::proof]
#[kani::unwind(10)]
fn k_c02_unsigned_width() {
    let (a, b): (u64, u64) = kani::any();
    let mut s: PropertySize<u64> = Default::default();
    s.process(a);
    s.process(b);
    let n = ByteSize::from(s) as usize;
    assert!(fits_u(a, n) && fits_u(b, n));
    // and it is the least such width
    assert!(n == 1 || !fits_u(a, n - 1) || !fits_u(b, n - 1));
    kani::cover!(n == 8);
}

// oblig: C02.a.signed_width kind=complete
#[kani::proof]
#[kani::unwind(10)]
fn k_c02_signed_width() {
    let (a, b): (i64, i64) = kani::any();
    let mut s: PropertySize<u64> = Default::default();
    // what Property::process does for a SignedInt column
    s.process(sign_fold(a));
    s.process(sign_fold(b));
    let n = ByteSize::from(s) as usize;
    // the two's complement representation on n bytes holds both values: read_isized(write_isized(v, n), n) == v (k_leaf_io)
    assert!(fits_s(a, n) && fits_s(b, n));
    assert!(n == 1 || !fits_s(a, n - 1) || !fits_s(b, n - 1));
    kani::cover!(a < 0 && b > 0x7fff);
}

// oblig: C02.a.content_width kind=complete
#[kani::proof]
#[kani::unwind(10)]
fn k_c02_content_address_width() {
    let (p, c): (u16, u32) = kani::any();
    let (p2, c2): (u16, u32) = kani::any();
    let mut ps: PropertySize<u16> = Default::default();
    let mut cs: PropertySize<u32> = Default::default();
    ps.process(p);
    ps.process(p2);
    cs.process(c);
    cs.process(c2);
    let (pn, cn) = (ByteSize::from(ps) as usize, ByteSize::from(cs) as usize);
    assert!(fits_u(p as u64, pn) && fits_u(p2 as u64, pn) && fits_u(c as u64, cn) && fits_u(c2 as u64, cn));
    assert!(pn <= 2 && cn <= 4);
    kani::cover!(cn == 4);
}

// ---- the real Property::process / finalize on a one-value entry: the column of the finalized layout holds every value it was
// ---- shown, immediate or deferred (Word), and a constant column keeps that very value as its default
struct OneValue(Value);
impl EntryTrait<&'static str, &'static str> for OneValue {
    fn variant_name(&self) -> Option<MayRef<&'static str>> {
        None
    }
    fn value<'a>(&'a self, _name: &&'static str) -> MayRef<'a, Value> {
        MayRef::Borrowed(&self.0)
    }
    fn value_count(&self) -> PropertyCount {
        PropertyCount::from(1u8)
    }
    fn set_idx(&mut self, _idx: EntryIdx) {}
    fn get_idx(&self) -> Bound<EntryIdx> {
        Vow::<EntryIdx>::default().bind()
    }
}

// oblig: C02.a.process_signed kind=complete timeout=600 tier=quick
#[kani::proof]
#[kani::unwind(10)]
fn k_c02_process_signed() {
    let (a, b): (i64, i64) = kani::any();
    let mut p = Property::<&'static str>::new_sint("x");
    // one deferred value (a position known late: Word), one immediate value
    p.process::<&'static str>(&OneValue(Value::SignedWord(Box::new(Word::from(a)))));
    p.process::<&'static str>(&OneValue(Value::Signed(b)));
    match p.finalize() {
        layout::Property::SignedInt { size, default, name: _ } => {
            let n = size as usize;
            assert!(fits_s(a, n) && fits_s(b, n));
            assert!(n == 1 || !fits_s(a, n - 1) || !fits_s(b, n - 1));
            assert!(default.is_none() || (a == b && default == Some(a)));
        }
        _ => assert!(false),
    }
    kani::cover!(a == 128 && b == 0);
    kani::cover!(a < 0);
}

// oblig: C02.a.process_unsigned kind=complete timeout=600 tier=quick
#[kani::proof]
#[kani::unwind(10)]
fn k_c02_process_unsigned() {
    let (a, b): (u64, u64) = kani::any();
    let mut p = Property::<&'static str>::new_uint("x");
    p.process::<&'static str>(&OneValue(Value::UnsignedWord(Box::new(Word::from(a)))));
    p.process::<&'static str>(&OneValue(Value::Unsigned(b)));
    match p.finalize() {
        layout::Property::UnsignedInt { size, default, name: _ } => {
            let n = size as usize;
            assert!(fits_u(a, n) && fits_u(b, n));
            assert!(n == 1 || !fits_u(a, n - 1) || !fits_u(b, n - 1));
            assert!(default.is_none() || (a == b && default == Some(a)));
        }
        _ => assert!(false),
    }
    kani::cover!(a > 0xffff_ffff);
}

use crate::creator::{Array, ArrayS, ValueStore};
use crate::creator::directory_pack::value_store::ValueHandle;
// ---- the array arm of the real Property::process: the width of the array-length column holds the length of every array it was
// ---- shown, whichever of the four array value shapes (inline prefix 0, 1, 2 or more bytes) carries it
// a value handle that names no store (Cell<Option<Arc<..>>> = None, index 0: the all-zero bit pattern).  Property::process never looks at
// the handle of an array value; StoreHandle::add_value, the only public way to get one, statically reaches rayon's parallel iterators,
// which kani-compiler 0.68 cannot translate (internal compiler error)
fn no_handle() -> ValueHandle {
    unsafe { core::mem::zeroed() }
}
fn len_width(p: Property<&'static str>) -> usize {
    let n = match p {
        Property::Array { max_array_size, fixed_array_len: _, store_handle, name: _ } => {
            core::mem::forget(store_handle);
            ByteSize::from(max_array_size) as usize
        }
        _ => 0,
    };
    n
}
macro_rules! k_process_array {
    ($name:ident, $prefix:expr, |$store:ident, $size:ident| $mk:expr) => {
        // oblig: C02.a.process_array kind=complete timeout=900 tier=quick
        #[kani::proof]
        #[kani::unwind(10)]
        fn $name() {
            let $store = ValueStore::new_plain(Some(0));
            let (sa, sb): (usize, usize) = kani::any();
            kani::assume(sa <= 0x00FF_FFFF && sb <= 0x00FF_FFFF);
            let mut p = Property::<&'static str>::new_array($prefix, $store.clone(), "x");
            let va = { let $size = sa; OneValue($mk) };
            let vb = { let $size = sb; OneValue($mk) };
            p.process::<&'static str>(&va);
            p.process::<&'static str>(&vb);
            core::mem::forget(va);
            core::mem::forget(vb);
            let n = len_width(p);
            assert!(n >= 1 && fits_u(sa as u64, n) && fits_u(sb as u64, n));
            assert!(n == 1 || !fits_u(sa as u64, n - 1) || !fits_u(sb as u64, n - 1));
            kani::cover!(n == 3);
            core::mem::forget($store);
        }
    };
}
k_process_array!(k_c02_process_array0, 0, |store, size| Value::Array0(Box::new(ArrayS::<0> { data: [], value_id: no_handle(), size })));
k_process_array!(k_c02_process_array1, 1, |store, size| Value::Array1(Box::new(ArrayS::<1> { data: [7], value_id: no_handle(), size })));
k_process_array!(k_c02_process_array2, 2, |store, size| Value::Array2(Box::new(ArrayS::<2> { data: [7, 9], value_id: no_handle(), size })));
k_process_array!(k_c02_process_arrayn, 3, |store, size| Value::Array(Box::new(Array { data: vec![7u8, 9, 11].into_boxed_slice(), value_id: no_handle(), size })));

// ---- the content-address arm of the real Property::process + finalize: the pack-id and content-id columns hold every address shown
// ---- (three of them: a run of equal pack ids followed by a different one is the interesting shape), are minimal, and a constant pack id
// ---- is kept as the default -- written on the pack-id width, so that width must hold it too
// oblig: C02.a.process_content_address kind=complete timeout=900 tier=quick
#[kani::proof]
#[kani::unwind(10)]
fn k_c02_process_content_address() {
    let (p1, p2, p3): (u16, u16, u16) = kani::any();
    let (c1, c2, c3): (u32, u32, u32) = kani::any();
    let mut p = Property::<&'static str>::new_content_address("x");
    let mk = |pk: u16, ct: u32| OneValue(Value::Content(crate::common::ContentAddress::new(PackId::from(pk), ContentIdx::from(ct))));
    p.process::<&'static str>(&mk(p1, c1));
    p.process::<&'static str>(&mk(p2, c2));
    p.process::<&'static str>(&mk(p3, c3));
    match p.finalize() {
        layout::Property::ContentAddress { content_id_size, pack_id_size, default, name: _ } => {
            let (pn, cn) = (pack_id_size as usize, content_id_size as usize);
            assert!(fits_u(p1 as u64, pn) && fits_u(p2 as u64, pn) && fits_u(p3 as u64, pn));
            assert!(fits_u(c1 as u64, cn) && fits_u(c2 as u64, cn) && fits_u(c3 as u64, cn));
            assert!(pn == 1 || !fits_u(p1 as u64, pn - 1) || !fits_u(p2 as u64, pn - 1) || !fits_u(p3 as u64, pn - 1));
            assert!(cn == 1 || !fits_u(c1 as u64, cn - 1) || !fits_u(c2 as u64, cn - 1) || !fits_u(c3 as u64, cn - 1));
            // a default is only kept for a column that never varied, and it is that very pack id
            assert!(default.is_none() || (p1 == p2 && p2 == p3 && default == Some(p1)));
            assert!(default.is_some() || !(p1 == p2 && p2 == p3));
        }
        _ => assert!(false),
    }
    kani::cover!(p1 == p2 && p2 != p3 && p1 > 255);
    kani::cover!(p1 == p2 && p2 == p3 && p1 > 255);
}

// (tried and dropped: a harness on schema::Properties::{finalize,process} -- a Vec of two properties through into_iter().chain().map().collect()
// makes CBMC run out of memory (> 60 GB); those two one-line adapter chains stay an assumption of C02)
