// props: C02 C03
// mount: src/reader/directory_pack/raw_value.rs
// RawValue::{get, as_unsigned, as_signed, as_content}: the last step of reading a property -- the typed value an application receives is the
// stored integer, widened WITHOUT change of value or sign, whatever width it was stored on (and a content address as it stands).
// Loop-free over the full domains of every width => complete.
use super::*;

macro_rules! k_rawvalue_unsigned {
    ($name:ident, $variant:ident, $t:ty) => {
        // oblig: C02.rawvalue_unsigned_widened_unchanged kind=complete timeout=300 tier=quick
        #[kani::proof]
        fn $name() {
            let v: $t = kani::any();
            let r = RawValue::$variant(v);
            assert!(r.as_unsigned() == v as u64);
            match r.get() {
                Ok(Value::Unsigned(x)) => assert!(x == v as u64),
                _ => assert!(false),
            }
            kani::cover!(v as u64 > 200);
        }
    };
}
k_rawvalue_unsigned!(k_c02_rawvalue_u8, U8, u8);
k_rawvalue_unsigned!(k_c02_rawvalue_u16, U16, u16);
k_rawvalue_unsigned!(k_c02_rawvalue_u32, U32, u32);
k_rawvalue_unsigned!(k_c02_rawvalue_u64, U64, u64);

macro_rules! k_rawvalue_signed {
    ($name:ident, $variant:ident, $t:ty) => {
        // oblig: C02.rawvalue_signed_widened_unchanged kind=complete timeout=300 tier=quick
        #[kani::proof]
        fn $name() {
            let v: $t = kani::any();
            let r = RawValue::$variant(v);
            assert!(r.as_signed() == v as i64);
            match r.get() {
                Ok(Value::Signed(x)) => assert!(x == v as i64 && (x < 0) == (v < 0)),
                _ => assert!(false),
            }
            kani::cover!(v < 0);
        }
    };
}
k_rawvalue_signed!(k_c02_rawvalue_i8, I8, i8);
k_rawvalue_signed!(k_c02_rawvalue_i16, I16, i16);
k_rawvalue_signed!(k_c02_rawvalue_i32, I32, i32);
k_rawvalue_signed!(k_c02_rawvalue_i64, I64, i64);

// oblig: C02.rawvalue_content_as_it_stands kind=complete timeout=300 tier=quick
#[kani::proof]
fn k_c02_rawvalue_content() {
    let (p, c): (u16, u32) = kani::any();
    let a = ContentAddress::new(PackId::from(p), ContentIdx::from(c));
    let r = RawValue::Content(a);
    let b = r.as_content();
    assert!(b.pack_id == PackId::from(p) && b.content_id == ContentIdx::from(c));
    match r.get() {
        Ok(Value::Content(x)) => assert!(x.pack_id == PackId::from(p) && x.content_id == ContentIdx::from(c)),
        _ => assert!(false),
    }
    kani::cover!(p > 0 && c > 0);
}
