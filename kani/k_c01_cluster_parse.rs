// props: C01 C13
// mount: src/reader/content_pack/cluster.rs
// C01.c: ClusterBuilder::parse (uses spare_capacity_mut / set_len: outside Verus) inverts the frozen cluster tail layout:
// header(comp, width, count) raw(w) data(w) offsets[0..n-1](w)  ->  ([0] ++ offsets ++ [data], raw).
// BOUNDED: blob count <= 3, offset width 1 and 2; all byte values symbolic.
use super::*;

fn fmt_stub(_args: std::fmt::Arguments<'_>) -> String {
    String::new()
}
fn bt_stub() -> std::backtrace::Backtrace {
    std::backtrace::Backtrace::disabled()
}

macro_rules! k_cluster_parse_w1 {
    ($name:ident, $n:expr) => {
        // oblig: C01.c.cluster_tail_parse kind=bounded(blobs<=3,width<=2) timeout=900 tier=thorough
        #[kani::proof]
        #[kani::unwind(8)]
        #[kani::stub(std::fmt::format, fmt_stub)]
        #[kani::stub(std::backtrace::Backtrace::capture, bt_stub)]
        fn $name() {
            // comp=None, width=1, count=$n, raw, data, offsets[$n - 1]
            let mut bytes = [0u8; 4 + 2 + $n - 1];
            bytes[0] = 0;
            bytes[1] = 1;
            bytes[2] = $n;
            bytes[3] = 0;
            let mut i = 4;
            while i < bytes.len() {
                bytes[i] = kani::any();
                i += 1;
            }
            let (raw, data) = (bytes[4], bytes[5]);
            kani::assume(raw == data);
            // stored END offsets are non-decreasing and within the data (what every conforming writer produces;
            // the reader asserts `offset <= data_size`)
            let mut k = 6;
            while k < bytes.len() {
                kani::assume(bytes[k] <= data);
                k += 1;
            }
            let mut p = SliceParser::new(std::borrow::Cow::Borrowed(&bytes[..]), Offset::zero());
            match ClusterBuilder::parse(&mut p) {
                Ok((b, r)) => {
                    assert!(r.into_u64() == raw as u64);
                    assert!(b.data_size.into_u64() == data as u64);
                    assert!(b.blob_offsets.len() == $n + 1);
                    assert!(b.blob_offsets[0].into_u64() == 0);
                    let mut j = 1;
                    while j < $n {
                        assert!(b.blob_offsets[j].into_u64() == bytes[5 + j] as u64);
                        j += 1;
                    }
                    assert!(b.blob_offsets[$n].into_u64() == data as u64);
                }
                Err(_) => assert!(false),
            }
            // a blob may be EMPTY, in particular the last one (offset == data size)
            kani::cover!(bytes[bytes.len() - 1] == data && data > 0);
        }
    };
}
k_cluster_parse_w1!(k_c01_cluster_parse_1, 1);
k_cluster_parse_w1!(k_c01_cluster_parse_2, 2); // tier=quick timeout=400
k_cluster_parse_w1!(k_c01_cluster_parse_3, 3);

// oblig: C01.c.cluster_tail_parse_w2 kind=bounded(blobs=2,width=2) timeout=900 tier=thorough
#[kani::proof]
#[kani::unwind(8)]
#[kani::stub(std::fmt::format, fmt_stub)]
#[kani::stub(std::backtrace::Backtrace::capture, bt_stub)]
fn k_c01_cluster_parse_w2() {
    let (data, o1): (u16, u16) = kani::any();
    kani::assume(o1 <= data);
    let d = data.to_le_bytes();
    let o = o1.to_le_bytes();
    let bytes = [0u8, 2, 2, 0, d[0], d[1], d[0], d[1], o[0], o[1]];
    let mut p = SliceParser::new(std::borrow::Cow::Borrowed(&bytes[..]), Offset::zero());
    match ClusterBuilder::parse(&mut p) {
        Ok((b, r)) => {
            assert!(r.into_u64() == data as u64 && b.data_size.into_u64() == data as u64);
            assert!(b.blob_offsets.len() == 3);
            assert!(b.blob_offsets[0].into_u64() == 0 && b.blob_offsets[1].into_u64() == o1 as u64 && b.blob_offsets[2].into_u64() == data as u64);
        }
        Err(_) => assert!(false),
    }
    kani::cover!(o1 == data && data > 300);
}
