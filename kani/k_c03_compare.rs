// props: C03 C15
// mount: src/creator/directory_pack/mod.rs
// C03.f: the writer's entry order (FullEntryTrait::compare, the default method used by the parallel sort and by the sortedness
// check) is the lexicographic order of the sort keys, each compared numerically -- in particular two entries with equal keys
// compare Equal (a store may hold duplicates: "non-decreasing order"; defect F14).  Mock entries with two integer keys, one
// immediate and one deferred (Word); full u64 x i64 domain; the loop runs over 2 keys => complete.
use super::*;

struct TwoKeys {
    a: Value,
    b: Value,
}
impl EntryTrait<&'static str, &'static str> for TwoKeys {
    fn variant_name(&self) -> Option<MayRef<&'static str>> {
        None
    }
    fn value<'a>(&'a self, name: &&'static str) -> MayRef<'a, Value> {
        if *name == "a" {
            MayRef::Borrowed(&self.a)
        } else {
            MayRef::Borrowed(&self.b)
        }
    }
    fn value_count(&self) -> PropertyCount {
        PropertyCount::from(2u8)
    }
    fn set_idx(&mut self, _idx: EntryIdx) {}
    fn get_idx(&self) -> Bound<EntryIdx> {
        Vow::<EntryIdx>::default().bind()
    }
}
impl FullEntryTrait<&'static str, &'static str> for TwoKeys {}

fn lex(xa: u64, xb: i64, ya: u64, yb: i64) -> std::cmp::Ordering {
    if xa < ya {
        std::cmp::Ordering::Less
    } else if xa > ya {
        std::cmp::Ordering::Greater
    } else if xb < yb {
        std::cmp::Ordering::Less
    } else if xb > yb {
        std::cmp::Ordering::Greater
    } else {
        std::cmp::Ordering::Equal
    }
}

// oblig: C03.f.entry_compare kind=complete timeout=600 tier=quick
#[kani::proof]
#[kani::unwind(4)]
fn k_c03_entry_compare() {
    let (xa, ya): (u64, u64) = kani::any();
    let (xb, yb): (i64, i64) = kani::any();
    let x = TwoKeys { a: Value::Unsigned(xa), b: Value::SignedWord(Box::new(Word::from(xb))) };
    let y = TwoKeys { a: Value::UnsignedWord(Box::new(Word::from(ya))), b: Value::Signed(yb) };
    let keys_arr = ["a", "b"];
    let keys = &keys_arr;
    assert!(x.compare(&keys, &y) == lex(xa, xb, ya, yb));
    assert!(y.compare(&keys, &x) == lex(ya, yb, xa, xb));
    // what the sortedness check of EntryStore::finalize relies on: equal keys are "in order"
    assert!(x.compare(&keys, &x) == std::cmp::Ordering::Equal);
    kani::cover!(xa == ya && xb == yb);
    kani::cover!(xa == ya && xb < yb);
}
