// props: C15
// mount: src/creator/directory_pack/directory_pack.rs
// C15.c: DirectoryPackCreator::finalize gives EVERY entry store its final positions before ANY store sizes its columns
// (an entry may reference an entry of another store: defect F13).  The stores are mocks that record the calls; the function
// under check is the real `finalize`.  BOUNDED: 1..=3 stores (the loop structure does not depend on the count).
use super::*;
use std::sync::atomic::{AtomicU32, Ordering};

// number of stores whose positions are final
static POSITIONED: AtomicU32 = AtomicU32::new(0);

struct MockFinal;
impl WritableTell for MockFinal {
    fn write_data(&mut self, _stream: &mut dyn OutStream) -> Result<()> {
        Ok(())
    }
    fn serialize_tail(&mut self, _ser: &mut Serializer) -> std::io::Result<()> {
        Ok(())
    }
}
struct MockStore {
    total: u32,
    mine: bool,
}
impl EntryStoreTrait for MockStore {
    fn set_final_positions(&mut self) {
        if !self.mine {
            self.mine = true;
            POSITIONED.fetch_add(1, Ordering::SeqCst);
        }
    }
    fn finalize(mut self: Box<Self>) -> Box<dyn WritableTell> {
        // the real EntryStore positions itself again here (idempotent) and then sizes its columns:
        self.set_final_positions();
        // at that point every OTHER store must already have its final positions
        assert!(POSITIONED.load(Ordering::SeqCst) == self.total);
        Box::new(MockFinal)
    }
}

// value-store finalisation (rayon sort; no value store in this harness) is cut off: its code makes the Kani compiler panic
fn vs_finalize_stub(_s: &StoreHandle, _idx: ValueStoreIdx) {}

// oblig: C15.c.positions_before_sizing kind=bounded(stores<=3) timeout=600 tier=quick
#[kani::proof]
#[kani::unwind(6)]
#[kani::stub(value_store::StoreHandle::finalize, vs_finalize_stub)]
fn k_c15_positions_before_sizing() {
    let n: u32 = kani::any();
    kani::assume(n >= 1 && n <= 3);
    let mut creator = DirectoryPackCreator::new(PackId::from(0u16), VendorId::from([0, 0, 0, 0]), Default::default());
    let mut i = 0;
    while i < n {
        creator.add_entry_store(Box::new(MockStore { total: n, mine: false }));
        i += 1;
    }
    let fin = creator.finalize();
    assert!(fin.is_ok());
    assert!(POSITIONED.load(Ordering::SeqCst) == n);
    kani::cover!(n == 3);
}

// ---- chains: a store may be SORTED on positions of another store (its order is only settled once that store's is).  Whatever the (acyclic)
// ---- dependencies among up to three stores and whatever the order in which they were added, every store is settled before any store
// ---- sizes its columns (defect F18: one positioning pass left a chain half settled, references were written truncated)
static SETTLED: [AtomicU32; 4] = [AtomicU32::new(0), AtomicU32::new(0), AtomicU32::new(0), AtomicU32::new(0)];
struct ChainStore {
    idx: usize,
    total: usize,
    // the store whose positions this store's sort key refers to
    dep: Option<usize>,
}
impl EntryStoreTrait for ChainStore {
    fn set_final_positions(&mut self) {
        // an order computed from settled positions is settled; one computed from positions that will still move is not
        let settled = match self.dep {
            None => 1,
            Some(d) => SETTLED[d].load(Ordering::SeqCst),
        };
        SETTLED[self.idx].store(settled, Ordering::SeqCst);
    }
    fn finalize(mut self: Box<Self>) -> Box<dyn WritableTell> {
        self.set_final_positions();
        // this store now sizes the columns that hold references: every store it may refer to must have its final order
        let mut k = 0;
        while k < self.total {
            assert!(SETTLED[k].load(Ordering::SeqCst) == 1);
            k += 1;
        }
        Box::new(MockFinal)
    }
}
fn any_dep(me: usize, n: usize) -> Option<usize> {
    if kani::any() {
        let d: usize = kani::any();
        kani::assume(d < n && d != me);
        Some(d)
    } else {
        None
    }
}
// oblig: C15.c.chains_settled_before_sizing kind=bounded(stores=3) timeout=900 tier=quick
#[kani::proof]
#[kani::unwind(6)]
#[kani::stub(value_store::StoreHandle::finalize, vs_finalize_stub)]
fn k_c15_chains_settled_before_sizing() {
    let n: usize = 3;
    let deps = [any_dep(0, n), any_dep(1, n), any_dep(2, n)];
    // acyclic: no store depends (directly or through others) on itself
    let mut i = 0;
    while i < n {
        let mut cur = deps[i];
        let mut steps = 0;
        while steps < 3 {
            if let Some(c) = cur {
                kani::assume(c != i);
                cur = deps[c];
            }
            steps += 1;
        }
        i += 1;
    }
    let mut creator = DirectoryPackCreator::new(PackId::from(0u16), VendorId::from([0, 0, 0, 0]), Default::default());
    let mut i = 0;
    while i < n {
        creator.add_entry_store(Box::new(ChainStore { idx: i, total: n, dep: deps[i] }));
        i += 1;
    }
    let fin = creator.finalize();
    assert!(fin.is_ok());
    // a chain of two dependencies, against the order of insertion
    kani::cover!(n == 3 && deps[0] == Some(1) && deps[1] == Some(2));
}

// the same with FOUR stores (a chain of three dependencies needs more settling passes than a chain of two: a cap on the number of passes
// that is right for three stores is wrong for four)
// oblig: C15.c.chains4_settled_before_sizing kind=bounded(stores=4) timeout=1200 tier=quick
#[kani::proof]
#[kani::unwind(7)]
#[kani::stub(value_store::StoreHandle::finalize, vs_finalize_stub)]
fn k_c15_chains4_settled_before_sizing() {
    let n: usize = 4;
    let deps = [any_dep(0, n), any_dep(1, n), any_dep(2, n), any_dep(3, n)];
    let mut i = 0;
    while i < n {
        let mut cur = deps[i];
        let mut steps = 0;
        while steps < 4 {
            if let Some(c) = cur {
                kani::assume(c != i);
                cur = deps[c];
            }
            steps += 1;
        }
        i += 1;
    }
    let mut creator = DirectoryPackCreator::new(PackId::from(0u16), VendorId::from([0, 0, 0, 0]), Default::default());
    let mut i = 0;
    while i < n {
        creator.add_entry_store(Box::new(ChainStore { idx: i, total: n, dep: deps[i] }));
        i += 1;
    }
    let fin = creator.finalize();
    assert!(fin.is_ok());
    kani::cover!(deps[0] == Some(1) && deps[1] == Some(2) && deps[2] == Some(3));
}
