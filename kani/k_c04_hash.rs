// props: C04
// mount: src/common/check.rs
// C04.a: CheckInfo::check compares the WHOLE stored hash with the hash of the stream: a stored hash that differs in any
// single byte (any position, any mask) from the computed one gives `false`, the computed one itself gives `true`.
// blake3 itself is stubbed (its SIMD dispatch is outside CBMC): `finalize` returns a fixed digest, `update_reader` feeds nothing;
// the obligation is about the comparison that follows, which runs unmodified.
use super::*;

fn upd_stub(h: &mut blake3::Hasher, _reader: impl std::io::Read) -> std::io::Result<&mut blake3::Hasher> {
    Ok(h)
}
const DIGEST: [u8; 32] = [
    0x00, 0x01, 0x7f, 0x80, 0xff, 0x10, 0x2a, 0x3c, 0x4d, 0x5e, 0x6f, 0x70, 0x81, 0x92, 0xa3, 0xb4, 0xc5, 0xd6, 0xe7, 0xf8, 0x09,
    0x1a, 0x2b, 0x3c, 0x4d, 0x5e, 0x6f, 0x70, 0x81, 0x92, 0xa3, 0xb4,
];
fn fin_stub(_h: &blake3::Hasher) -> blake3::Hash {
    blake3::Hash::from(DIGEST)
}

// constant_time_eq hides its operands from the optimiser with inline asm (outside Kani): replaced by plain byte equality (ASSUMED equivalent)
fn cte32_stub(a: &[u8; 32], b: &[u8; 32]) -> bool {
    let mut i = 0;
    let mut eq = true;
    while i < 32 {
        if a[i] != b[i] {
            eq = false;
        }
        i += 1;
    }
    eq
}

// Hasher::new() probes the CPU (cpuid, inline asm): pinned to the portable implementation
fn detect_stub() -> blake3::platform::Platform {
    blake3::platform::Platform::Portable
}

// oblig: C04.a.every_hash_byte_counts kind=proof timeout=600 tier=quick
#[kani::proof]
#[kani::unwind(70)]
#[kani::stub(blake3::Hasher::update_reader, upd_stub)]
#[kani::stub(blake3::Hasher::finalize, fin_stub)]
#[kani::stub(constant_time_eq::constant_time_eq_32, cte32_stub)]
#[kani::stub(blake3::platform::Platform::detect, detect_stub)]
fn k_c04_every_hash_byte_counts() {
    let data = [1u8, 2, 3];
    let i: usize = kani::any();
    kani::assume(i < 32);
    let m: u8 = kani::any();
    let mut h = DIGEST;
    h[i] ^= m;
    let ci = CheckInfo { b3hash: Some(blake3::Hash::from(h)) };
    let mut src: &[u8] = &data;
    match ci.check(&mut src) {
        Ok(b) => assert!(b == (m == 0)),
        Err(_) => assert!(false),
    }
    kani::cover!(m == 0);
    kani::cover!(m != 0 && i == 31);
}
