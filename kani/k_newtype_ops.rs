// props: C01 C02 C13 C14 C10
// mount: src/bases/types/mod.rs
// The operators and conversions of Offset / Size / ASize (offset.rs, size.rs, asize.rs) as the Verus prelude contracts/inc/offset.vxi states them:
// plain 64-bit arithmetic on the wrapped number, nothing else.  One harness per operator, loop-free over the full domains (the sums are
// assumed not to overflow: the prelude makes that each operator's precondition) => complete.  This is the check of that hand-written prelude
// against the REAL impls.
use super::*;

macro_rules! k_op2 {
    ($name:ident, |$a:ident : $ta:ty, $b:ident : $tb:ty| $pre:expr, $real:expr, $expect:expr) => {
        // oblig: shim.newtype_operators kind=complete timeout=300 tier=quick
        #[kani::proof]
        fn $name() {
            let $a: $ta = kani::any();
            let $b: $tb = kani::any();
            kani::assume($pre);
            assert!($real == $expect);
        }
    };
}
k_op2!(k_off_add_size, |a: u64, b: u64| a.checked_add(b).is_some(), (Offset::from(a) + Size::from(b)).into_u64(), a + b);
k_op2!(k_off_add_asize, |a: u64, b: usize| a.checked_add(b as u64).is_some(), (Offset::from(a) + ASize::from(b)).into_u64(), a + b as u64);
k_op2!(k_off_add_off, |a: u64, b: u64| a.checked_add(b).is_some(), (Offset::from(a) + Offset::from(b)).into_u64(), a + b);
k_op2!(k_off_add_usize, |a: u64, b: usize| a.checked_add(b as u64).is_some(), (Offset::from(a) + b).into_u64(), a + b as u64);
k_op2!(k_size_add_size, |a: u64, b: u64| a.checked_add(b).is_some(), (Size::from(a) + Size::from(b)).into_u64(), a + b);
k_op2!(k_size_add_u64, |a: u64, b: u64| a.checked_add(b).is_some(), (Size::from(a) + b).into_u64(), a + b);
k_op2!(k_off_sub_off, |a: u64, b: u64| a >= b, (Offset::from(a) - Offset::from(b)).into_u64(), a - b);
k_op2!(k_size_sub_size, |a: u64, b: u64| a >= b, (Size::from(a) - Size::from(b)).into_u64(), a - b);
k_op2!(k_off_sub_size, |a: u64, b: u64| a >= b, (Offset::from(a) - Size::from(b)).into_u64(), a - b);
k_op2!(k_off_sub_asize, |a: u64, b: usize| a >= b as u64, (Offset::from(a) - ASize::from(b)).into_u64(), a - b as u64);
k_op2!(k_off_cmp, |a: u64, b: u64| true, Offset::from(a).partial_cmp(&Offset::from(b)), a.partial_cmp(&b));
k_op2!(k_size_cmp, |a: u64, b: u64| true, Size::from(a).partial_cmp(&Size::from(b)), a.partial_cmp(&b));
k_op2!(k_asize_cmp, |a: usize, b: usize| true, ASize::from(a).partial_cmp(&ASize::from(b)), a.partial_cmp(&b));
k_op2!(k_off_from_size_asize, |a: u64, b: usize| true, (Offset::from(Size::from(a)).into_u64(), Offset::from(ASize::from(b)).into_u64(), Offset::from(b).into_u64()), (a, b as u64, b as u64));
k_op2!(k_size_from_off_asize, |a: u64, b: usize| true, (Size::from(Offset::from(a)).into_u64(), Size::from(ASize::from(b)).into_u64(), Size::from(b).into_u64()), (a, b as u64, b as u64));
k_op2!(k_asize_conv, |a: usize, b: usize| true, (ASize::new(a).into_usize(), ASize::from(b).into_u64(), ASize::new(a).is_zero()), (a, b as u64, a == 0));
k_op2!(k_zero_new, |a: u64, b: u64| true, (Offset::zero().into_u64(), Offset::new(a).into_u64(), Size::zero().into_u64(), Size::new(b).into_u64(), Size::new(b).is_zero(), Offset::new(a).is_zero()), (0, a, 0, b, b == 0, a == 0));

macro_rules! k_opassign {
    ($name:ident, |$a:ident : $ta:ty, $b:ident : $tb:ty| $pre:expr, $init:expr, $rhs:expr, $get:ident, $expect:expr) => {
        // oblig: shim.newtype_add_assign kind=complete timeout=300 tier=quick
        #[kani::proof]
        fn $name() {
            let $a: $ta = kani::any();
            let $b: $tb = kani::any();
            kani::assume($pre);
            let mut x = $init;
            x += $rhs;
            assert!(x.$get() == $expect);
        }
    };
}
k_opassign!(k_off_addassign_usize, |a: u64, b: usize| a.checked_add(b as u64).is_some(), Offset::from(a), b, into_u64, a + b as u64);
k_opassign!(k_off_addassign_size, |a: u64, b: u64| a.checked_add(b).is_some(), Offset::from(a), Size::from(b), into_u64, a + b);
k_opassign!(k_off_addassign_off, |a: u64, b: u64| a.checked_add(b).is_some(), Offset::from(a), Offset::from(b), into_u64, a + b);
k_opassign!(k_off_addassign_asize, |a: u64, b: usize| a.checked_add(b as u64).is_some(), Offset::from(a), ASize::from(b), into_u64, a + b as u64);
k_opassign!(k_size_addassign_u64, |a: u64, b: u64| a.checked_add(b).is_some(), Size::from(a), b, into_u64, a + b);
