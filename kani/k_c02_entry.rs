// props: C02 C14
// mount: src/creator/directory_pack/value_store.rs
// C02.d: the bytes of one stored entry.  The REAL layout::Properties::serialize_entry, run on a mock entry, emits for each
// property of the layout exactly the frozen encoding of its value, in layout order, and reports exactly the number of bytes
// written: integers little-endian on their column width (two's complement for signed), content address = pack id then content
// id, array = [length] ++ inline bytes ++ zero fill up to the fixed length ++ [value-store key], indirect array = key,
// padding = zeros, variant id = one byte; a column with a default writes nothing.  Values are symbolic over the whole range of
// their (fixed, "rare": 1/2/3-byte) column widths; array data length is fixed per harness (BOUNDED in the shapes tried).
use super::*;
use crate::creator::directory_pack::layout::{Properties, Property};
use crate::common::ContentAddress;
use crate::creator::directory_pack::{Array, ArrayS, EntryTrait, Value};

fn fmt_stub(_args: std::fmt::Arguments<'_>) -> String {
    String::new()
}
fn vh(idx: u64) -> ValueHandle {
    ValueHandle { store: Cell::new(None), idx: Cell::new(idx) }
}
fn byte_of(v: u64, i: usize) -> u8 {
    (v >> (8 * i)) as u8
}
struct Mock {
    u: Value,
    s: Value,
    c: Value,
    a: Value,
}
impl EntryTrait<&'static str, &'static str> for Mock {
    fn variant_name(&self) -> Option<MayRef<&'static str>> {
        None
    }
    fn value<'a>(&'a self, name: &&'static str) -> MayRef<'a, Value> {
        MayRef::Borrowed(match *name {
            "u" => &self.u,
            "s" => &self.s,
            "c" => &self.c,
            _ => &self.a,
        })
    }
    fn value_count(&self) -> PropertyCount {
        PropertyCount::from(4u8)
    }
    fn set_idx(&mut self, _idx: EntryIdx) {}
    fn get_idx(&self) -> Bound<EntryIdx> {
        Vow::<EntryIdx>::default().bind()
    }
}

// oblig: C02.d.entry_scalars kind=complete timeout=900 tier=quick
#[kani::proof]
#[kani::unwind(14)]
#[kani::stub(std::fmt::format, fmt_stub)]
fn k_c02_entry_scalars() {
    let u: u64 = kani::any();
    kani::assume(u < (1 << 24));
    let s: i64 = kani::any();
    kani::assume(-(1 << 15) <= s && s < (1 << 15));
    let (p, c, v): (u16, u32, u8) = kani::any();
    kani::assume(p < 256 && c < (1 << 24));
    let e = Mock {
        u: Value::Unsigned(u),
        s: Value::SignedWord(Box::new(Word::from(s))),
        c: Value::Content(ContentAddress::new(PackId::from(p), ContentIdx::from(c))),
        a: Value::Unsigned(0),
    };
    let keys: Vec<Property<&'static str>> = vec![
        Property::VariantId("v"),
        Property::UnsignedInt { size: ByteSize::U3, default: None, name: "u" },
        Property::SignedInt { size: ByteSize::U2, default: None, name: "s" },
        Property::ContentAddress { content_id_size: ByteSize::U3, pack_id_size: ByteSize::U1, default: None, name: "c" },
        Property::Padding(2),
    ];
    let mut ser = Serializer::new(BlockCheck::None);
    let r = Properties::serialize_entry::<&'static str>(keys.iter(), Some(VariantIdx::from(v)), &e, &mut ser);
    match r {
        Ok(n) => assert!(n == 12),
        Err(_) => assert!(false),
    }
    let (buf, _) = ser.close();
    assert!(buf.len() == 12);
    assert!(buf[0] == v);
    assert!(buf[1] == byte_of(u, 0) && buf[2] == byte_of(u, 1) && buf[3] == byte_of(u, 2));
    assert!(buf[4] == byte_of(s as u64, 0) && buf[5] == byte_of(s as u64, 1));
    assert!(buf[6] == p as u8);
    assert!(buf[7] == byte_of(c as u64, 0) && buf[8] == byte_of(c as u64, 1) && buf[9] == byte_of(c as u64, 2));
    assert!(buf[10] == 0 && buf[11] == 0);
    kani::cover!(s < 0 && u > 0xffff);
}

// oblig: C02.d.entry_defaults kind=complete timeout=900 tier=quick
#[kani::proof]
#[kani::unwind(14)]
#[kani::stub(std::fmt::format, fmt_stub)]
fn k_c02_entry_defaults() {
    let u: u64 = kani::any();
    let s: i64 = kani::any();
    let (p, c): (u16, u32) = kani::any();
    kani::assume(c < (1 << 16));
    let e = Mock {
        u: Value::UnsignedWord(Box::new(Word::from(u))),
        s: Value::Signed(s),
        c: Value::Content(ContentAddress::new(PackId::from(p), ContentIdx::from(c))),
        a: Value::Unsigned(0),
    };
    // constant columns: nothing is written for them (the value lives in the layout); the content id still is
    let keys: Vec<Property<&'static str>> = vec![
        Property::UnsignedInt { size: ByteSize::U8, default: Some(u), name: "u" },
        Property::SignedInt { size: ByteSize::U8, default: Some(s), name: "s" },
        Property::ContentAddress { content_id_size: ByteSize::U2, pack_id_size: ByteSize::U2, default: Some(p), name: "c" },
    ];
    let mut ser = Serializer::new(BlockCheck::None);
    let r = Properties::serialize_entry::<&'static str>(keys.iter(), None, &e, &mut ser);
    match r {
        Ok(n) => assert!(n == 2),
        Err(_) => assert!(false),
    }
    let (buf, _) = ser.close();
    assert!(buf.len() == 2);
    assert!(buf[0] == byte_of(c as u64, 0) && buf[1] == byte_of(c as u64, 1));
    kani::cover!(s < 0);
}

// oblig: C02.d.entry_arrays kind=bounded(inline<=2bytes) timeout=900 tier=quick
#[kani::proof]
#[kani::unwind(14)]
#[kani::stub(std::fmt::format, fmt_stub)]
fn k_c02_entry_arrays() {
    let (b0, b1, b2): (u8, u8, u8) = kani::any();
    let (sz, id, id2, id3): (u64, u64, u64, u64) = kani::any();
    kani::assume(sz < (1 << 16) && id < (1 << 24) && id2 < (1 << 8) && id3 < (1 << 16));
    let store = ValueStore::new_plain(None);
    // "u": 1 inline byte of a longer array, fixed length 2 (=> one zero of fill), length on 2 bytes, key on 3 bytes
    // "s": 2 inline bytes, fixed length 2 (no fill), no length stored, key on 1 byte
    // "c": indirect array: key only, on 2 bytes
    // "a": array entirely inline (no key): 1 byte, fixed length 1, length on 1 byte
    let e = Mock {
        u: Value::Array1(Box::new(ArrayS::<1> { data: [b0], value_id: vh(id), size: sz as usize })),
        s: Value::Array(Box::new(Array { size: 7, data: vec![b1, b2].into_boxed_slice(), value_id: vh(id2) })),
        c: Value::IndirectArray(Box::new(vh(id3))),
        a: Value::Array1(Box::new(ArrayS::<1> { data: [b2], value_id: vh(0), size: 1 })),
    };
    let keys: Vec<Property<&'static str>> = vec![
        Property::Array { array_len_size: Some(ByteSize::U2), fixed_array_len: 2, deported_info: Some((ByteSize::U3, store.clone())), name: "u" },
        Property::Array { array_len_size: None, fixed_array_len: 2, deported_info: Some((ByteSize::U1, store.clone())), name: "s" },
        Property::IndirectArray { value_id_size: ByteSize::U2, store_handle: store.clone(), name: "c" },
        Property::Array { array_len_size: Some(ByteSize::U1), fixed_array_len: 1, deported_info: None, name: "a" },
    ];
    let mut ser = Serializer::new(BlockCheck::None);
    let r = Properties::serialize_entry::<&'static str>(keys.iter(), None, &e, &mut ser);
    match r {
        Ok(n) => assert!(n == 7 + 3 + 2 + 2),
        Err(_) => assert!(false),
    }
    let (buf, _) = ser.close();
    assert!(buf.len() == 14);
    // length(2) data(1) fill(1) key(3)
    assert!(buf[0] == byte_of(sz, 0) && buf[1] == byte_of(sz, 1) && buf[2] == b0 && buf[3] == 0);
    assert!(buf[4] == byte_of(id, 0) && buf[5] == byte_of(id, 1) && buf[6] == byte_of(id, 2));
    // data(2) key(1)
    assert!(buf[7] == b1 && buf[8] == b2 && buf[9] == byte_of(id2, 0));
    // key(2)
    assert!(buf[10] == byte_of(id3, 0) && buf[11] == byte_of(id3, 1));
    // length(1) data(1)
    assert!(buf[12] == 1 && buf[13] == b2);
    kani::cover!(sz > 255 && id > 0xffff);
}
