// props: C02 C14
// mount: src/reader/directory_pack/value_store.rs
// C02.vs / C14.value_store: ValueStoreBuilder::parse (uses spare_capacity_mut / set_len: outside Verus) inverts the frozen value-store
// tail layouts that the creator's serialize_tail emits (unit c02_cvaluestore):
//   plain   : kind 0, data size on 8 bytes                                   -> (Plain, size)
//   indexed : kind 1, count (8), offset width w (1), data size (w), the END offset of every value but the last (w each)
//                                                                             -> (Indexed([0] ++ offsets ++ [data size]), data size)
// BOUNDED: value count <= 3, offset width 1 (and one width-2 case); all other byte values symbolic.
use super::*;

fn fmt_stub(_args: std::fmt::Arguments<'_>) -> String {
    String::new()
}
fn bt_stub() -> std::backtrace::Backtrace {
    std::backtrace::Backtrace::disabled()
}

// oblig: C14.value_store.plain_tail_parse kind=complete timeout=600 tier=quick
#[kani::proof]
#[kani::unwind(10)]
#[kani::stub(std::fmt::format, fmt_stub)]
#[kani::stub(std::backtrace::Backtrace::capture, bt_stub)]
fn k_c02_vstore_parse_plain() {
    let size: u64 = kani::any();
    let s = size.to_le_bytes();
    let bytes = [0u8, s[0], s[1], s[2], s[3], s[4], s[5], s[6], s[7]];
    let mut p = SliceParser::new(std::borrow::Cow::Borrowed(&bytes[..]), Offset::zero());
    match ValueStoreBuilder::parse(&mut p) {
        Ok((ValueStoreBuilder::Plain, sz)) => assert!(sz.into_u64() == size),
        _ => assert!(false),
    }
    kani::cover!(size > 0xFFFF_FFFF);
}

macro_rules! k_vstore_parse_indexed_w1 {
    ($name:ident, $n:expr) => {
        // oblig: C02.vs.indexed_tail_parse kind=bounded(values<=3,width<=2) timeout=900 tier=thorough
        #[kani::proof]
        #[kani::unwind(10)]
        #[kani::stub(std::fmt::format, fmt_stub)]
        #[kani::stub(std::backtrace::Backtrace::capture, bt_stub)]
        fn $name() {
            // kind=1, count=$n (8 bytes), width=1, data size, offsets[$n - 1]
            const EXTRA: usize = if $n == 0 { 0 } else { $n - 1 };
            let mut bytes = [0u8; 1 + 8 + 1 + 1 + EXTRA];
            bytes[0] = 1;
            bytes[1] = $n;
            bytes[9] = 1;
            let mut i = 10;
            while i < bytes.len() {
                bytes[i] = kani::any();
                i += 1;
            }
            let data = bytes[10];
            // stored END offsets lie within the data (what every conforming writer produces; the reader asserts it)
            let mut k = 11;
            while k < bytes.len() {
                kani::assume(bytes[k] <= data);
                k += 1;
            }
            let mut p = SliceParser::new(std::borrow::Cow::Borrowed(&bytes[..]), Offset::zero());
            match ValueStoreBuilder::parse(&mut p) {
                Ok((ValueStoreBuilder::Indexed(offsets), sz)) => {
                    assert!(sz.into_u64() == data as u64);
                    assert!(offsets.len() == $n + 1);
                    if $n > 0 {
                        assert!(offsets[0].into_u64() == 0);
                    }
                    let mut j = 1;
                    while j < $n {
                        assert!(offsets[j].into_u64() == bytes[10 + j] as u64);
                        j += 1;
                    }
                    assert!(offsets[$n].into_u64() == data as u64);
                }
                _ => assert!(false),
            }
            kani::cover!(data > 0);
        }
    };
}
k_vstore_parse_indexed_w1!(k_c02_vstore_parse_indexed_0, 0);
k_vstore_parse_indexed_w1!(k_c02_vstore_parse_indexed_1, 1);
k_vstore_parse_indexed_w1!(k_c02_vstore_parse_indexed_2, 2); // tier=quick timeout=400
k_vstore_parse_indexed_w1!(k_c02_vstore_parse_indexed_3, 3);

// oblig: C02.vs.indexed_tail_parse_w2 kind=bounded(values=2,width=2) timeout=900 tier=thorough
#[kani::proof]
#[kani::unwind(10)]
#[kani::stub(std::fmt::format, fmt_stub)]
#[kani::stub(std::backtrace::Backtrace::capture, bt_stub)]
fn k_c02_vstore_parse_indexed_w2() {
    let (data, o1): (u16, u16) = kani::any();
    kani::assume(o1 <= data);
    let d = data.to_le_bytes();
    let o = o1.to_le_bytes();
    let bytes = [1u8, 2, 0, 0, 0, 0, 0, 0, 0, 2, d[0], d[1], o[0], o[1]];
    let mut p = SliceParser::new(std::borrow::Cow::Borrowed(&bytes[..]), Offset::zero());
    match ValueStoreBuilder::parse(&mut p) {
        Ok((ValueStoreBuilder::Indexed(offsets), sz)) => {
            assert!(sz.into_u64() == data as u64);
            assert!(offsets.len() == 3);
            assert!(offsets[0].into_u64() == 0 && offsets[1].into_u64() == o1 as u64 && offsets[2].into_u64() == data as u64);
        }
        _ => assert!(false),
    }
    kani::cover!(o1 == data && data > 300);
}
