// props: C14 C06 C02
// mount: src/bases/types/error.rs
// Harnesses whose error path builds a FormatError from a string literal: mounted next to FormatError so that its constructor can be
// stubbed (String allocation + copy of the message dominates CBMC time; messages are irrelevant to every property).
use super::*;
use crate::bases::*;

fn fmt_stub(_args: std::fmt::Arguments<'_>) -> String {
    String::new()
}
fn bt_stub() -> std::backtrace::Backtrace {
    std::backtrace::Backtrace::disabled()
}
fn fe_stub<T: Into<String>>(_what: T, where_: Option<Offset>) -> FormatError {
    FormatError { what: String::new(), where_ }
}

// oblig: C14.byte_size_parse kind=complete timeout=400
#[kani::proof]
#[kani::unwind(6)]
#[kani::stub(std::fmt::format, fmt_stub)]
#[kani::stub(std::backtrace::Backtrace::capture, bt_stub)]
#[kani::stub(crate::bases::types::error::FormatError::new, fe_stub)]
fn k_bytesize_parse_total() {
    let data: [u8; 1] = kani::any();
    let mut p = SliceParser::new(std::borrow::Cow::Borrowed(&data[..]), Offset::zero());
    match ByteSize::parse(&mut p) {
        Ok(b) => assert!(1 <= data[0] && data[0] <= 8 && b as usize == data[0] as usize),
        Err(_) => assert!(data[0] == 0 || data[0] > 8),
    }
    kani::cover!(data[0] == 8);
}

// oblig: C14.fullpackkind kind=complete timeout=400
#[kani::proof]
#[kani::unwind(6)]
#[kani::stub(std::fmt::format, fmt_stub)]
#[kani::stub(std::backtrace::Backtrace::capture, bt_stub)]
#[kani::stub(crate::bases::types::error::FormatError::new, fe_stub)]
fn k_fullpackkind_parse() {
    use crate::common::{FullPackKind, PackKind};
    let data: [u8; 4] = kani::any();
    let mut p = SliceParser::new(std::borrow::Cow::Borrowed(&data[..]), Offset::zero());
    let code = |k: PackKind| k as u8;
    match FullPackKind::parse(&mut p) {
        Ok(k) => {
            assert!(data[0] == 0x6a && data[1] == 0x62 && data[2] == 0x6b && data[3] == code(k));
            assert!(data[3] == 0x6d || data[3] == 0x64 || data[3] == 0x63 || data[3] == 0x43);
            assert!(p.global_offset().into_u64() == 4);
        }
        Err(_) => assert!(!(data[0] == 0x6a && data[1] == 0x62 && data[2] == 0x6b && (data[3] == 0x6d || data[3] == 0x64 || data[3] == 0x63 || data[3] == 0x43))),
    }
    kani::cover!(data[0] == 0x6a && data[1] == 0x62 && data[2] == 0x6b && data[3] == 0x43);
}
