// props: C04 C12 C10
// mount: src/reader/manifest_pack.rs
// PackOffsetsIter (reader/manifest_pack.rs): the positions of the pack-info blocks of a manifest.  `new` starts at check_info_pos - 256 * count
// with `count` items left; one step of `next` yields the current position and moves on by 256, `left` goes down by one; None exactly when
// nothing is left.  This is the one-step contract the Verus unit c12_setloc assumes for Iterator::next (a trait method cannot take the struct
// invariant `offset + 256 * left <= u64::MAX` as a precondition there).  Loop-free, full domains => complete.
use super::*;

// oblig: C12.pack_offsets_iter_step kind=complete timeout=300 tier=quick
#[kani::proof]
fn k_pack_offsets_iter_step() {
    let (off, left): (u64, u16) = kani::any();
    kani::assume(off.checked_add(256 * left as u64).is_some());
    let mut it = PackOffsetsIter { offset: Offset::from(off), left };
    match it.next() {
        None => assert!(left == 0 && it.left == 0 && it.offset.into_u64() == off),
        Some(o) => assert!(left > 0 && o.into_u64() == off && it.left == left - 1 && it.offset.into_u64() == off + 256),
    }
    kani::cover!(left == 1);
    kani::cover!(left == 0);
}

// oblig: C12.pack_offsets_iter_new kind=complete timeout=300 tier=quick
#[kani::proof]
fn k_pack_offsets_iter_new() {
    let (pos, n): (u64, u16) = kani::any();
    kani::assume(pos >= 256 * n as u64);
    let it = PackOffsetsIter::new(Offset::from(pos), PackCount::from(n));
    assert!(it.left == n && it.offset.into_u64() == pos - 256 * n as u64);
    kani::cover!(n > 1);
}
