// props: C02 C10 C14 C01
// mount: src/bases/types/specific_types.rs
// `for idx in <count>` (IntoIterator for the macro-generated Count types + the generic IntoIter<T>::next): the indices 0, 1, .., count-1, each once,
// in that order.  The Verus units rewrite these loops to plain ranges (`0..count`): this is the check of that rewrite on the REAL code.
// Loop-free over the full domains => complete:  into_iter: current == 0, end == count;  next: None iff current == end, else yields current
// and advances by exactly one, end untouched.  (current <= end is the invariant of an iterator started at 0: preserved by the step.)
use super::*;

macro_rules! k_count_iter_into {
    ($name:ident, $count:ident, $idx:ident, $base:ty) => {
        // oblig: shim.count_iter_starts_at_0_ends_at_count kind=complete timeout=300 tier=quick
        #[kani::proof]
        fn $name() {
            let n: $base = kani::any();
            let it = $count::from(n).into_iter();
            assert!(it.current == $idx::from(0 as $base));
            assert!(it.end == $idx::from(n));
            kani::cover!(n > 1);
        }
    };
}
macro_rules! k_count_iter_next {
    ($name:ident, $idx:ident, $base:ty) => {
        // oblig: shim.count_iter_step_yields_current_advances_by_1 kind=complete timeout=300 tier=quick
        #[kani::proof]
        fn $name() {
            let (c, e): ($base, $base) = kani::any();
            kani::assume(c <= e);
            let mut it = IntoIter { current: $idx::from(c), end: $idx::from(e) };
            match it.next() {
                None => assert!(c == e),
                Some(r) => {
                    assert!(c < e && r == $idx::from(c));
                    assert!(it.current == $idx::from(c + 1) && it.end == $idx::from(e));
                }
            }
            kani::cover!(c == e);
            kani::cover!(c < e && e - c == 1);
        }
    };
}
k_count_iter_into!(k_count_iter_into_pack, PackCount, PackId, u16);
k_count_iter_into!(k_count_iter_into_index, IndexCount, IndexIdx, u32);
k_count_iter_into!(k_count_iter_into_property, PropertyCount, PropertyIdx, u8);
k_count_iter_next!(k_count_iter_next_pack, PackId, u16);
k_count_iter_next!(k_count_iter_next_index, IndexIdx, u32);
k_count_iter_next!(k_count_iter_next_property, PropertyIdx, u8);
