// props: C05 C04 C01 C02
// mount: src/bases/io/file.rs
// move_to_memory (file.rs): on a 64-bit target EVERY region may be brought to memory.  FileSource::cut verifies the CRC of a block only on the
// in-memory path (the other path returns the file region as it is, with a warning): were some region refused here, blocks of that size read from
// a file would be handed out unverified.  The Verus unit c05_filesource assumes `move_to_memory(..) == true`; this is its check on the real
// function.  Loop-free, full domain => complete.
use super::*;

// oblig: C05.every_block_read_from_a_file_can_be_checked kind=complete timeout=300 tier=quick
#[kani::proof]
fn k_c05_move_to_memory_always_on_64bit() {
    let (b, e): (u64, u64) = kani::any();
    kani::assume(b <= e);
    let region = Region::new(Offset::from(b), Offset::from(e));
    assert!(move_to_memory(region));
    kani::cover!(e - b > 0xFFFFFF);
}
