// props: C12 C14 C02
// mount: src/bases/types/pstring.rs
// PArray::serialize_string_padded / serialize_string on the REAL generic functions (T = [u8], Output = SmallBytes), beside the unbounded
// Verus proof of the same source text instantiated at the SmallString shim (unit c12_packinfo): the bytes written are
//   len (1 byte) ++ the string bytes ++ zeros up to `size`     (1 + size bytes in all; serialize_string: no padding)
// BOUNDED: a few fixed (string length, field size) pairs, lengths <= 3; byte values symbolic.
use super::*;

macro_rules! k_pstring_padded {
    ($name:ident, $len:expr, $size:expr) => {
        // oblig: C12.pstring.kani_padded_generic kind=bounded(len<=3,size<=3) timeout=900 tier=thorough
        #[kani::proof]
        #[kani::unwind(8)]
        fn $name() {
            let b: [u8; $len] = kani::any();
            let mut s = Serializer::new(BlockCheck::None);
            match PBytes::serialize_string_padded(&b[..], $size, &mut s) {
                Ok(n) => {
                    assert!(n == 1 + $size as usize);
                    let (buf, _) = s.close();
                    assert!(buf.len() == 1 + $size as usize);
                    assert!(buf[0] as usize == $len);
                    let mut i = 0;
                    while i < $size as usize {
                        assert!(buf[1 + i] == if i < $len { b[i] } else { 0 });
                        i += 1;
                    }
                }
                Err(_) => assert!(false),
            }
        }
    };
}
k_pstring_padded!(k_pstring_padded_0_2, 0, 2u8);
k_pstring_padded!(k_pstring_padded_2_3, 2, 3u8); // tier=quick
k_pstring_padded!(k_pstring_padded_3_3, 3, 3u8);

// oblig: C02.pstring.kani_plain_generic kind=bounded(len=2) timeout=900 tier=thorough
#[kani::proof]
#[kani::unwind(8)]
fn k_pstring_plain() {
    let b: [u8; 2] = kani::any();
    let mut s = Serializer::new(BlockCheck::None);
    match PBytes::serialize_string(&b[..], &mut s) {
        Ok(n) => {
            assert!(n == 3);
            let (buf, _) = s.close();
            assert!(buf.len() == 3);
            assert!(buf[0] == 2 && buf[1] == b[0] && buf[2] == b[1]);
        }
        Err(_) => assert!(false),
    }
}
