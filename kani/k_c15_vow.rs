// props: C15
// mount: src/bases/types/delayed.rs
// C15.a: Vow / Bound / Word / Late: a value fulfilled through the Vow is what every Bound (and every clone of it) and every
// Word built from a Bound reports afterwards -- Word reads at call time, not at construction time.  Loop-free, full u32/u64
// domain => complete.  (Atomics are executed sequentially by Kani: visibility across threads is NOT decided here.)
use super::*;

// oblig: C15.a.vow_bound_u32 kind=complete
#[kani::proof]
fn k_c15_vow_bound_u32() {
    let (a, x, y): (u32, u32, u32) = kani::any();
    let v = Vow::<u32>::new(a);
    let b = v.bind();
    let b2 = b.clone();
    assert!(v.get() == a && b.get() == a && b2.get() == a);
    v.fulfil(x);
    assert!(v.get() == x && b.get() == x && b2.get() == x);
    let b3 = v.bind();
    v.fulfil(y);
    assert!(b.get() == y && b2.get() == y && b3.get() == y);
    assert!(b == b3);
    kani::cover!(x != a && y != x);
}

// oblig: C15.a.word_from_bound kind=complete
#[kani::proof]
fn k_c15_word_reads_at_call_time() {
    let (a, x): (u32, u32) = kani::any();
    let v = Vow::<u32>::new(a);
    let w: Word<u64> = Word::from(v.bind());
    let w2 = w.clone();
    assert!(w.get() == a as u64);
    v.fulfil(x);
    // the Word was built BEFORE the position became final and still reports the final one
    assert!(w.get() == x as u64 && w2.get() == x as u64);
    let c: Word<u64> = Word::from(7u64);
    assert!(c.get() == 7);
    kani::cover!(x != a);
}

// oblig: C15.a.vow_u64_u16_u8 kind=complete
#[kani::proof]
fn k_c15_vow_other_widths() {
    let (a, b, c): (u64, u16, u8) = kani::any();
    let (va, vb, vc) = (Vow::<u64>::new(0), Vow::<u16>::new(0), Vow::<u8>::new(0));
    let (ba, bb, bc) = (va.bind(), vb.bind(), vc.bind());
    va.fulfil(a);
    vb.fulfil(b);
    vc.fulfil(c);
    assert!(ba.get() == a && bb.get() == b && bc.get() == c);
    kani::cover!(a > 0xffff_ffff);
}

// oblig: C15.a.late kind=complete
#[kani::proof]
fn k_c15_late() {
    let x: u64 = kani::any();
    let l: Late<u64> = Default::default();
    l.set(x);
    assert!(l.get() == x);
    let l2 = l.clone();
    assert!(l2.get() == x);
    kani::cover!(x > 5);
}
