// props: C01 C02 C14
// mount: src/bases/mod.rs
// K-checks of the Serializer / Parser shim contracts used by the Verus units (contracts/inc/ser.vxi) on the REAL
// Serializer (Cursor<Vec<u8>>) and SliceParser, one concrete width per harness, full-domain symbolic values:
// loop-free => complete.  Also: needed_bytes == nb, ByteSize::parse total, FullPackKind codec.
use super::*;

// stubs for the error path: message formatting and (debug-profile) backtrace capture are irrelevant to every property
fn fmt_stub(_args: std::fmt::Arguments<'_>) -> String {
    String::new()
}
fn bt_stub() -> std::backtrace::Backtrace {
    std::backtrace::Backtrace::disabled()
}

fn byte_of(v: u64, i: usize) -> u8 {
    ((v >> (8 * i)) & 0xff) as u8
}

macro_rules! k_write_usized {
    ($name:ident, $bs:expr, $n:expr) => {
        // oblig: shim.write_usized kind=complete
        #[kani::proof]
        fn $name() {
            let v: u64 = kani::any();
            let mut s = Serializer::new(BlockCheck::None);
            match s.write_usized(v, $bs) {
                Ok(n) => {
                    assert!(n == $n);
                    assert!(s.len() == $n);
                    let (buf, crc) = s.close();
                    assert!(crc.is_none());
                    assert!(buf.len() == $n);
                    let mut i = 0;
                    while i < $n {
                        assert!(buf[i] == byte_of(v, i));
                        i += 1;
                    }
                }
                Err(_) => {}
            }
            kani::cover!(v > 0xffff_ffff);
        }
    };
}
k_write_usized!(k_write_usized_1, ByteSize::U1, 1);
k_write_usized!(k_write_usized_2, ByteSize::U2, 2);
k_write_usized!(k_write_usized_3, ByteSize::U3, 3);
k_write_usized!(k_write_usized_4, ByteSize::U4, 4);
k_write_usized!(k_write_usized_5, ByteSize::U5, 5);
k_write_usized!(k_write_usized_6, ByteSize::U6, 6);
k_write_usized!(k_write_usized_7, ByteSize::U7, 7);
k_write_usized!(k_write_usized_8, ByteSize::U8, 8);

macro_rules! k_write_isized {
    ($name:ident, $bs:expr, $n:expr) => {
        // oblig: shim.write_isized kind=complete
        #[kani::proof]
        fn $name() {
            let v: i64 = kani::any();
            // zerocopy's write_int panics (debug) when the value does not fit: the Verus contract only speaks of values that fit
            if $n < 8 {
                let lim: i64 = 1i64 << (8 * $n - 1);
                kani::assume(-lim <= v && v < lim);
            }
            let mut s = Serializer::new(BlockCheck::None);
            match s.write_isized(v, $bs) {
                Ok(n) => {
                    assert!(n == $n);
                    let (buf, _) = s.close();
                    assert!(buf.len() == $n);
                    let mut i = 0;
                    while i < $n {
                        assert!(buf[i] == byte_of(v as u64, i));
                        i += 1;
                    }
                }
                Err(_) => {}
            }
            kani::cover!(v < 0);
        }
    };
}
k_write_isized!(k_write_isized_1, ByteSize::U1, 1);
k_write_isized!(k_write_isized_2, ByteSize::U2, 2);
k_write_isized!(k_write_isized_3, ByteSize::U3, 3);
k_write_isized!(k_write_isized_4, ByteSize::U4, 4);
k_write_isized!(k_write_isized_5, ByteSize::U5, 5);
k_write_isized!(k_write_isized_6, ByteSize::U6, 6);
k_write_isized!(k_write_isized_7, ByteSize::U7, 7);
k_write_isized!(k_write_isized_8, ByteSize::U8, 8);

// oblig: shim.write_fixed kind=complete
#[kani::proof]
fn k_write_fixed() {
    let (a, b, c, d): (u8, u16, u32, u64) = kani::any();
    let mut s = Serializer::new(BlockCheck::None);
    if s.write_u8(a).is_err() || s.write_u16(b).is_err() || s.write_u32(c).is_err() || s.write_u64(d).is_err() {
        return;
    }
    let (buf, _) = s.close();
    assert!(buf.len() == 15);
    assert!(buf[0] == a);
    assert!(buf[1] == byte_of(b as u64, 0) && buf[2] == byte_of(b as u64, 1));
    assert!(buf[3] == byte_of(c as u64, 0) && buf[4] == byte_of(c as u64, 1) && buf[5] == byte_of(c as u64, 2) && buf[6] == byte_of(c as u64, 3));
    let mut i = 0;
    while i < 8 {
        assert!(buf[7 + i] == byte_of(d, i));
        i += 1;
    }
    kani::cover!(true);
}

fn from_le(b: &[u8]) -> u64 {
    let mut v = 0u64;
    let mut i = 0;
    while i < b.len() {
        v |= (b[i] as u64) << (8 * i);
        i += 1;
    }
    v
}

macro_rules! k_read_usized {
    ($name:ident, $bs:expr, $n:expr) => {
        // oblig: shim.read_usized kind=complete
        #[kani::proof]
        fn $name() {
            let data: [u8; $n] = kani::any();
            let mut p = SliceParser::new(std::borrow::Cow::Borrowed(&data[..]), Offset::zero());
            match p.read_usized($bs) {
                Ok(v) => assert!(v == from_le(&data[..$n])),
                Err(_) => assert!(false),
            }
            kani::cover!(data[0] != 0);
        }
    };
}
k_read_usized!(k_read_usized_1, ByteSize::U1, 1);
k_read_usized!(k_read_usized_2, ByteSize::U2, 2);
k_read_usized!(k_read_usized_3, ByteSize::U3, 3);
k_read_usized!(k_read_usized_4, ByteSize::U4, 4);
k_read_usized!(k_read_usized_5, ByteSize::U5, 5);
k_read_usized!(k_read_usized_6, ByteSize::U6, 6);
k_read_usized!(k_read_usized_7, ByteSize::U7, 7);
k_read_usized!(k_read_usized_8, ByteSize::U8, 8);
macro_rules! k_read_isized {
    ($name:ident, $bs:expr, $n:expr) => {
        // oblig: shim.read_isized kind=complete
        #[kani::proof]
        fn $name() {
            let data: [u8; $n] = kani::any();
            let mut q = SliceParser::new(std::borrow::Cow::Borrowed(&data[..]), Offset::zero());
            match q.read_isized($bs) {
                Ok(v) => {
                    let u = from_le(&data[..$n]);
                    let expect = if $n == 8 { u as i64 } else if (u >> (8 * $n - 1)) & 1 == 1 { (u | !((1u64 << (8 * $n)) - 1)) as i64 } else { u as i64 };
                    assert!(v == expect);
                }
                Err(_) => assert!(false),
            }
            kani::cover!(data[$n - 1] >= 0x80);
        }
    };
}
k_read_isized!(k_read_isized_1, ByteSize::U1, 1);
k_read_isized!(k_read_isized_2, ByteSize::U2, 2);
k_read_isized!(k_read_isized_3, ByteSize::U3, 3);
k_read_isized!(k_read_isized_4, ByteSize::U4, 4);
k_read_isized!(k_read_isized_5, ByteSize::U5, 5);
k_read_isized!(k_read_isized_6, ByteSize::U6, 6);
k_read_isized!(k_read_isized_7, ByteSize::U7, 7);
k_read_isized!(k_read_isized_8, ByteSize::U8, 8);
// oblig: shim.parser_bounds kind=complete
#[kani::proof]
#[kani::stub(std::fmt::format, fmt_stub)]
#[kani::stub(std::backtrace::Backtrace::capture, bt_stub)]
fn k_slice_parser_bounds() {
    let data: [u8; 3] = kani::any();
    let g: u64 = kani::any();
    kani::assume(g < 1 << 40);
    let mut p = SliceParser::new(std::borrow::Cow::Borrowed(&data[..]), Offset::new(g));
    assert!(p.skip(2).is_ok());
    assert!(p.global_offset().into_u64() == g + 2);
    match p.read_u8() { Ok(v) => assert!(v == data[2]), Err(_) => assert!(false) }
    assert!(p.skip(1).is_err());
    assert!(p.skip(0).is_ok());
    kani::cover!(true);
}

// oblig: shim.read_fixed kind=complete
#[kani::proof]
fn k_read_fixed() {
    let data: [u8; 15] = kani::any();
    let mut p = SliceParser::new(std::borrow::Cow::Borrowed(&data[..]), Offset::zero());
    match (p.read_u8(), p.read_u16(), p.read_u32(), p.read_u64()) {
        (Ok(a), Ok(b), Ok(c), Ok(d)) => {
            assert!(a as u64 == from_le(&data[0..1]));
            assert!(b as u64 == from_le(&data[1..3]));
            assert!(c as u64 == from_le(&data[3..7]));
            assert!(d == from_le(&data[7..15]));
        }
        _ => assert!(false),
    }
    kani::cover!(true);
}

fn nb(v: u64) -> usize {
    if v < 0x100 { 1 } else if v < 0x1_0000 { 2 } else if v < 0x100_0000 { 3 } else if v < 0x1_0000_0000 { 4 }
    else if v < 0x100_0000_0000 { 5 } else if v < 0x1_0000_0000_0000 { 6 } else if v < 0x100_0000_0000_0000 { 7 } else { 8 }
}
// oblig: C01.f.needed_bytes_u64 kind=complete
#[kani::proof]
#[kani::unwind(10)]
fn k_needed_bytes_u64() {
    let v: u64 = kani::any();
    assert!(needed_bytes(v) as usize == nb(v));
    kani::cover!(v > 0xffff_ffff_ffff);
}
// oblig: C01.f.needed_bytes_usize kind=complete
#[kani::proof]
#[kani::unwind(10)]
fn k_needed_bytes_usize() {
    let v: usize = kani::any();
    assert!(needed_bytes(v) as usize == nb(v as u64));
    kani::cover!(v > 0xffff);
}

// oblig: C14.fullpackkind kind=complete
#[kani::proof]
fn k_fullpackkind_serialize() {
    use crate::common::{FullPackKind, PackKind};
    let which: u8 = kani::any();
    let (k, c) = match which % 4 { 0 => (PackKind::Manifest, 0x6du8), 1 => (PackKind::Directory, 0x64u8), 2 => (PackKind::Content, 0x63u8), _ => (PackKind::Container, 0x43u8) };
    let mut s = Serializer::new(BlockCheck::None);
    match FullPackKind(k).serialize(&mut s) {
        Ok(n) => {
            assert!(n == 4);
            let (buf, _) = s.close();
            assert!(buf.len() == 4 && buf[0] == 0x6a && buf[1] == 0x62 && buf[2] == 0x6b && buf[3] == c);
        }
        Err(_) => {}
    }
    kani::cover!(which == 3);
}
