// props: C13 C06
// mount: src/bases/types/range.rs
// flags: -Z function-contracts
// Contracts for the relative-cut algebra of Region (C13.a).  The contract attributes are injected
// in front of the real functions by kani/inject.json; these harnesses make Kani check the real
// bodies against them over the full u64 domain (loop-free => complete).
use super::*;

impl kani::Arbitrary for Offset {
    fn any() -> Self {
        Offset::new(kani::any())
    }
}
impl kani::Arbitrary for Size {
    fn any() -> Self {
        Size::new(kani::any())
    }
}
impl kani::Arbitrary for ASize {
    fn any() -> Self {
        ASize::new(kani::any())
    }
}
impl kani::Arbitrary for Range<Offset> {
    fn any() -> Self {
        // no invariant assumed here: `begin <= end` is part of the injected `requires`
        Range {
            begin: kani::any(),
            end: kani::any(),
        }
    }
}

// oblig: C13.a.cut_rel kind=complete
#[kani::proof_for_contract(crate::bases::types::range::Range::<Offset>::cut_rel)]
fn k_c13_cut_rel_contract() {
    let r: Range<Offset> = kani::any();
    let o: Offset = kani::any();
    let s: Size = kani::any();
    let _ = r.cut_rel(o, s);
}

// oblig: C13.a.cut_rel_asize kind=complete
#[kani::proof_for_contract(crate::bases::types::range::Range::<Offset>::cut_rel_asize)]
fn k_c13_cut_rel_asize_contract() {
    let r: Range<Offset> = kani::any();
    let o: Offset = kani::any();
    let s: ASize = kani::any();
    let _ = r.cut_rel_asize(o, s);
}

// oblig: C13.a.cut_cut kind=complete
// cut(o1,s1).cut(o2,s2) == cut(o1+o2, s2) whenever the left side is admissible
#[kani::proof]
fn k_c13_cut_cut_compose() {
    let r: Range<Offset> = kani::any();
    let (o1, s1, o2, s2): (u64, u64, u64, u64) = kani::any();
    kani::assume(r.begin.into_u64() <= r.end.into_u64());
    let len = r.end.into_u64() - r.begin.into_u64();
    kani::assume(o1 <= len && s1 <= len - o1);
    kani::assume(o2 <= s1 && s2 <= s1 - o2);
    let a = r.cut_rel(Offset::new(o1), Size::new(s1)).cut_rel(Offset::new(o2), Size::new(s2));
    let b = r.cut_rel(Offset::new(o1 + o2), Size::new(s2));
    assert!(a == b);
    assert!(a.size().into_u64() == s2);
    assert!(a.begin().into_u64() >= r.begin().into_u64() && a.end().into_u64() <= r.end().into_u64());
    kani::cover!(s2 > 0 && o1 > 0 && o2 > 0);
}

// oblig: C13.a.range_basic kind=complete
#[kani::proof]
fn k_c13_range_new_from_size() {
    let (b, s): (u64, u64) = kani::any();
    kani::assume(s <= u64::MAX - b);
    let r = Region::new_from_size(Offset::new(b), Size::new(s));
    assert!(r.begin().into_u64() == b && r.end().into_u64() == b + s && r.size().into_u64() == s);
    let r2 = Region::new(Offset::new(b), Offset::new(b + s));
    assert!(r2 == r);
    kani::cover!(s > 0);
}
