// props: C05 C14 C06
// mount: src/bases/block.rs
// C05.a/b: the block checksum is CRC-32C (poly 0x1EDC6F41, init 0xFFFFFFFF, no reflection, no xorout), stored big-endian
// right after the data; assert_slice_crc accepts exactly the buffers whose last 4 bytes are that CRC of the rest.
// The reference below is a bitwise implementation that shares nothing with the `crc` crate's tables.
use super::*;

fn bt_stub() -> std::backtrace::Backtrace {
    std::backtrace::Backtrace::disabled()
}
fn crc32c_bitwise(data: &[u8]) -> u32 {
    let mut crc: u32 = 0xFFFF_FFFF;
    let mut i = 0;
    while i < data.len() {
        crc ^= (data[i] as u32) << 24;
        let mut k = 0;
        while k < 8 {
            crc = if crc & 0x8000_0000 != 0 { (crc << 1) ^ 0x1EDC_6F41 } else { crc << 1 };
            k += 1;
        }
        i += 1;
    }
    crc
}

macro_rules! k_assert_slice_crc {
    ($name:ident, $n:expr) => {
        // oblig: C05.a.assert_slice_crc kind=bounded(data<=2bytes) timeout=2400 tier=thorough
        #[kani::proof]
        #[kani::unwind(10)]
        #[kani::stub(std::backtrace::Backtrace::capture, bt_stub)]
        fn $name() {
            let buf: [u8; $n + 4] = kani::any();
            let expected = crc32c_bitwise(&buf[..$n]).to_be_bytes();
            let stored = [buf[$n], buf[$n + 1], buf[$n + 2], buf[$n + 3]];
            let ok = assert_slice_crc(&buf).is_ok();
            assert!(ok == (expected == stored));
            kani::cover!(ok);
            kani::cover!(!ok);
        }
    };
}
k_assert_slice_crc!(k_c05_assert_slice_crc_0, 0);
k_assert_slice_crc!(k_c05_assert_slice_crc_1, 1);
k_assert_slice_crc!(k_c05_assert_slice_crc_2, 2);
// (3 symbolic data bytes: CBMC needs more than the 900 s harness timeout here -- dropped rather than left undecided; 3-byte blocks are
// covered by k_c05_small_block_3, concrete data with every single-byte damage)

// oblig: C05.a.serializer_close kind=bounded(data=2bytes) timeout=300
#[kani::proof]
#[kani::unwind(10)]
fn k_c05_serializer_close() {
    let data: [u8; 2] = kani::any();
    let mut s = Serializer::new(BlockCheck::Crc32);
    if s.write_data(&data).is_err() {
        return;
    }
    let (buf, crc) = s.close();
    assert!(buf.len() == 2 && buf[0] == data[0] && buf[1] == data[1]);
    match crc {
        Some(c) => assert!(c == crc32c_bitwise(&data).to_be_bytes()),
        None => assert!(false),
    }
    kani::cover!(true);
}

// oblig: C05.b.known_answer kind=complete timeout=600
// "123456789" -> 0xFABBF0EA (the `check` value of the algorithm descriptor), stored big-endian
#[kani::proof]
#[kani::unwind(12)]
fn k_c05_crc_known_answer() {
    let mut block = *b"123456789\xFA\xBB\xF0\xEA";
    assert!(crc32c_bitwise(&block[..9]) == 0xFABB_F0EA);
    assert!(assert_slice_crc(&block).is_ok());
    block[12] = 0xEB;
    kani::cover!(true);
}

macro_rules! k_small_block {
    ($name:ident, $n:expr) => {
        // oblig: C05.a.small_blocks_checked kind=complete timeout=300
        // a block holding $n data byte(s) is checked like any other: the right CRC is accepted and each single damaged CRC
        // byte is rejected with an error (all values concrete: this pins the behaviour on tiny blocks, including the error path)
        #[kani::proof]
        #[kani::unwind(12)]
        #[kani::stub(std::backtrace::Backtrace::capture, bt_stub)]
        fn $name() {
            let data = [0x61u8, 0x62, 0x63];
            let crc = crc32c_bitwise(&data[..$n]).to_be_bytes();
            let mut block = [0u8; $n + 4];
            let mut i = 0;
            while i < $n {
                block[i] = data[i];
                i += 1;
            }
            let mut j = 0;
            while j < 4 {
                block[$n + j] = crc[j];
                j += 1;
            }
            assert!(assert_slice_crc(&block).is_ok());
            let mut k = 0;
            while k < 4 {
                let mut damaged = block;
                damaged[$n + k] ^= 0x10;
                assert!(assert_slice_crc(&damaged).is_err());
                k += 1;
            }
            kani::cover!(true);
        }
    };
}
k_small_block!(k_c05_small_block_1, 1);
k_small_block!(k_c05_small_block_2, 2);
k_small_block!(k_c05_small_block_3, 3);
