// props: C02 C03 C15
// mount: src/bases/types/specific_types.rs
// EntryIdx / EntryCount (macro-generated: specific! {u32, EntryIdx(Idx), EntryCount, "Entry"}) as the Verus prelude contracts/inc/entryidx.vxi
// states them: plain u32 arithmetic and comparisons on the wrapped number, `is_valid` = "less than the count", `for idx in count` = 0..count.
// One harness per operator, loop-free over the full domains (sums assumed not to overflow: the prelude's *_req clauses) => complete.
use super::*;

macro_rules! k_idx {
    ($name:ident, |$a:ident, $b:ident| $pre:expr, $real:expr, $expect:expr) => {
        // oblig: shim.entryidx_operators kind=complete timeout=300 tier=quick
        #[kani::proof]
        fn $name() {
            let $a: u32 = kani::any();
            let $b: u32 = kani::any();
            kani::assume($pre);
            assert!($real == $expect);
        }
    };
}
k_idx!(k_idx_add_count, |a, b| a.checked_add(b).is_some(), (EntryIdx::from(a) + EntryCount::from(b)).into_u32(), a + b);
k_idx!(k_idx_add_idx, |a, b| a.checked_add(b).is_some(), (EntryIdx::from(a) + EntryIdx::from(b)).into_u32(), a + b);
k_idx!(k_idx_sub_idx, |a, b| a >= b, (EntryIdx::from(a) - EntryIdx::from(b)).into_u32(), a - b);
k_idx!(k_idx_sub_u32, |a, b| a >= b, (EntryIdx::from(a) - b).into_u32(), a - b);
k_idx!(k_count_add_u32, |a, b| a.checked_add(b).is_some(), (EntryCount::from(a) + b).into_u32(), a + b);
k_idx!(k_idx_cmp, |a, b| true, (EntryIdx::from(a).partial_cmp(&EntryIdx::from(b)), EntryIdx::from(a) == EntryIdx::from(b)), (a.partial_cmp(&b), a == b));
k_idx!(k_idx_is_valid, |a, b| true, EntryIdx::from(a).is_valid(*EntryCount::from(b)), a < b);
k_idx!(k_idx_conv, |a, b| true, (EntryIdx::from(a).into_u64(), EntryCount::from(b).into_u64(), EntryIdx::from(a).into_u32(), EntryCount::from(b).into_u32()), (a as u64, b as u64, a, b));
// `for idx in count`: IntoIter { current: 0, end: count }; one step yields `current` and advances by one (the other count types: k_count_iter.rs)
k_idx!(k_idx_count_iter, |c, e| c <= e, {
    let it0 = EntryCount::from(e).into_iter();
    let mut it = IntoIter { current: EntryIdx::from(c), end: EntryIdx::from(e) };
    let r = it.next();
    (it0.current == EntryIdx::from(0), it0.end == EntryIdx::from(e), r.map(|i| i.into_u32()), it.end == EntryIdx::from(e), c == e || it.current == EntryIdx::from(c + 1))
}, (true, true, if c == e { None } else { Some(c) }, true, true));

// Count / u32: the crate only ever halves a count (RangeTrait::find: `size / 2`); a symbolic 32-bit divisor is beyond CBMC's time here
// oblig: shim.entryidx_count_halved kind=bounded(divisor=2) timeout=300 tier=quick
#[kani::proof]
fn k_count_div_2() {
    let a: u32 = kani::any();
    assert!((EntryCount::from(a) / 2).into_u32() == a / 2);
}
