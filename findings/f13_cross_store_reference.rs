// F13 demo: store A holds references to entries of store B; B is sorted and finalised after A.
// Every stored reference must be the referenced entry's final position.
use jbk::creator::{schema, EntryStoreTrait};
use jbk::reader::builder::AnyBuilder;
use jbk::reader::{EntryTrait, Range};
use jubako as jbk;
use std::collections::HashMap;
use std::sync::Arc;

const VENDOR_ID: jbk::VendorId = jbk::VendorId::new([1, 2, 3, 4]);
type EntryType = jbk::creator::BasicEntry<&'static str, &'static str>;
type EntryStore = jbk::creator::EntryStore<&'static str, &'static str, EntryType>;

struct Two { a: Box<EntryStore>, b: Box<EntryStore>, na: u32, nb: u32 }
impl EntryStoreTrait for Two {
    fn finalize(self: Box<Self>, directory_pack: &mut jbk::creator::DirectoryPackCreator) {
        let ida = directory_pack.add_entry_store(self.a);
        let idb = directory_pack.add_entry_store(self.b);
        directory_pack.create_index("a", Default::default(), 0.into(), ida, self.na.into(), jbk::EntryIdx::from(0).into());
        directory_pack.create_index("b", Default::default(), 0.into(), idb, self.nb.into(), jbk::EntryIdx::from(0).into());
    }
}

fn main() {
    let nb: u32 = 300;
    let dir = tempfile::tempdir().unwrap();
    let path = jbk::Utf8PathBuf::from_path_buf(dir.path().join("f13.jbk")).unwrap();
    let creator = jbk::creator::BasicCreator::new(&path, jbk::creator::ConcatMode::OneFile, VENDOR_ID, jbk::creator::Compression::None, Arc::new(())).unwrap();
    // B: sorted on "name"; names decrease with the creation order, so sorting reverses the store
    let schema_b = schema::Schema::new(schema::CommonProperties::new(vec![schema::Property::new_uint("name"), schema::Property::new_uint("id")]), vec![], Some(vec!["name"]));
    let mut b = Box::new(EntryStore::new(schema_b, None));
    let mut handles = vec![];
    for i in 0..nb {
        let e = EntryType::new_from_schema(&b.schema, None, HashMap::from([("name", jbk::Value::Unsigned((nb - i) as u64)), ("id", jbk::Value::Unsigned(i as u64))]));
        handles.push(b.add_entry(e));
    }
    // A: one entry, referencing the FIRST created entry of B (insertion position 0, final position nb - 1)
    let schema_a = schema::Schema::new(schema::CommonProperties::new(vec![schema::Property::new_uint("link")]), vec![], None);
    let mut a = Box::new(EntryStore::new(schema_a, None));
    let e = EntryType::new_from_schema(&a.schema, None, HashMap::from([("link", jbk::Value::UnsignedWord(handles[0].clone().into()))]));
    a.add_entry(e);
    creator.finalize(Box::new(Two { a, b, na: 1, nb }), vec![]).unwrap();

    let container = jbk::reader::Container::new(&path).unwrap();
    let ib = container.get_index_for_name("b").unwrap().expect("index b");
    let bb = AnyBuilder::new(ib.get_store(container.get_entry_storage()).unwrap(), container.get_value_storage().as_ref()).unwrap();
    let mut final_pos_of_0 = u64::MAX;
    for pos in 0..nb {
        let entry = ib.get_entry(&bb, pos.into()).unwrap().expect("entry");
        if entry.get_value("id").unwrap().unwrap().as_unsigned() == 0 { final_pos_of_0 = pos as u64; }
    }
    assert_eq!(handles[0].get().into_u64(), final_pos_of_0, "handle reports the final position");
    let ia = container.get_index_for_name("a").unwrap().expect("index a");
    let ba = AnyBuilder::new(ia.get_store(container.get_entry_storage()).unwrap(), container.get_value_storage().as_ref()).unwrap();
    let link = ia.get_entry(&ba, 0u32.into()).unwrap().expect("entry").get_value("link").unwrap().unwrap().as_unsigned();
    assert_eq!(link, final_pos_of_0, "stored reference == final position of the referenced entry");
    println!("F13 demo: OK");
}
