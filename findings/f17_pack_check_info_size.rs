// F17 demo: the manifest copies the check info of every pack it lists and records where (a sized offset: position + size of the block,
// the block's CRC following it -- the convention of every other sized offset of the format).  Reading that copy back through the library's
// own ManifestPack::get_pack_check_info must give the pack's check info (the blake3 the pack creator returned).
use jubako as jbk;
use jbk::creator::schema;
use std::collections::HashMap;
use std::fs::OpenOptions;
use jbk::Pack;
const VENDOR_ID: jbk::VendorId = jbk::VendorId::new([1, 2, 3, 4]);
const CONTENT: &[u8] = b"A super content prime quality for our test container";
fn main() {
    let dir = tempfile::tempdir().unwrap();
    let p = |n: &str| dir.path().join(n);
    let id = jbk::PackId::from(1u16);
    let mut content_pack = jbk::creator::ContentPackCreator::new(camino::Utf8PathBuf::from_path_buf(p("t.jbkc")).unwrap(), id, VENDOR_ID, Default::default(), jbk::creator::Compression::None).unwrap();
    let mut directory_pack = jbk::creator::DirectoryPackCreator::new(jbk::PackId::from(0), VENDOR_ID, Default::default());
    let value_store = jbk::creator::ValueStore::new_plain(None);
    let entry_def: schema::Schema<&'static str, &'static str> = schema::Schema::new(
        schema::CommonProperties::new(vec![schema::Property::new_uint("AInteger"), schema::Property::new_content_address("TheContent")]),
        vec![], None);
    let mut entry_store = Box::new(jbk::creator::EntryStore::new(entry_def, None));
    let addr = content_pack.add_content(Box::new(std::io::Cursor::new(CONTENT.to_vec())), Default::default()).unwrap();
    assert_eq!(addr.pack_id, id);
    entry_store.add_entry(jbk::creator::BasicEntry::new_from_schema(&entry_store.schema, None,
        HashMap::from([("AInteger", jbk::Value::Unsigned(50)), ("TheContent", jbk::Value::Content(addr))])));
    directory_pack.add_value_store(value_store);
    let es = directory_pack.add_entry_store(entry_store);
    directory_pack.create_index("main", Default::default(), 0.into(), es, 1.into(), jbk::EntryIdx::from(0).into());
    let mut df = OpenOptions::new().read(true).write(true).create(true).truncate(true).open(p("t.jbkd")).unwrap();
    let dinfo = directory_pack.finalize().unwrap().write(&mut df).unwrap();
    let (_f, cinfo) = content_pack.finalize().unwrap();
    let mut m = jbk::creator::ManifestPackCreator::new(VENDOR_ID, Default::default());
    m.add_pack(dinfo, "t.jbkd");
    m.add_pack(cinfo, "t.jbkc");
    let mut mf = OpenOptions::new().read(true).write(true).create(true).truncate(true).open(p("t.jbkm")).unwrap();
    m.finalize(&mut mf).unwrap();
    drop(mf); drop(df);

    let container = jbk::tools::open_pack(p("t.jbkm")).unwrap();
    let reader = container.get_manifest_pack_reader().unwrap().expect("manifest pack");
    let manifest = jbk::reader::ManifestPack::new(reader).unwrap();
    assert!(manifest.check().unwrap());
    for info in std::iter::once(manifest.get_directory_pack_info()).chain(manifest.get_pack_infos().iter()) {
        let ci = manifest.get_pack_check_info(info.uuid).expect("the recorded check info of a listed pack must be readable").expect("pack is listed");
        let _ = ci;
    }
    println!("F17 demo: OK");
}
