// F6 demo (known finding, not fixed): one damaged byte inside a compressed cluster must surface as an error (or as
// different content bytes caught by check()), never crash the process.  Today the decoder error is unwrap()ed inside
// the decompression pool and rayon aborts the process.
use jubako as jbk;
use std::io::Read;
fn main() {
    let dir = tempfile::tempdir().unwrap();
    let path = dir.path().join("f6.jbkc");
    let data: Vec<u8> = (0..20000u32).map(|i| (i % 7) as u8 + b'a').collect();
    let mut cp = jbk::creator::ContentPackCreator::new(
        camino::Utf8Path::from_path(&path).unwrap(), jbk::PackId::from(1), jbk::VendorId::new([1, 2, 3, 4]),
        Default::default(), jbk::creator::Compression::default()).unwrap();
    let addr = cp.add_content(Box::new(std::io::Cursor::new(data.clone())), jbk::creator::CompHint::Yes).unwrap();
    let (f, _info) = cp.finalize().unwrap();
    drop(f);
    let mut bytes = std::fs::read(&path).unwrap();
    // the compressed frame starts right after the two 64-byte header blocks
    bytes[128 + 6] ^= 0x40;
    std::fs::write(&path, &bytes).unwrap();
    let pack = jbk::reader::ContentPack::new(jbk::FileSource::open(&path).unwrap().into()).unwrap();
    let region = pack.get_content(addr.content_id).unwrap().unwrap();
    let mut v = vec![];
    let r = region.stream().read_to_end(&mut v);
    println!("read returned {:?} ({} bytes): no crash", r.is_ok(), v.len());
    println!("F6 demo: OK");
}
