// F9 demo: tools::set_location must rewrite the location of a pack listed in the manifest and leave the container valid.
#[path = "demo_common.rs"]
mod common;
use jubako as jbk;
fn main() {
    let dir = tempfile::tempdir().unwrap();
    let path = dir.path().join("f9.jbk");
    common::make_container(&path, jbk::creator::ConcatMode::OneFile);
    let infos = |path: &std::path::Path| -> Vec<jbk::reader::PackInfo> {
        let cp = jbk::tools::open_pack(path).unwrap();
        let m = jbk::reader::ManifestPack::new(cp.get_manifest_pack_reader().unwrap().unwrap()).unwrap();
        m.get_pack_infos().to_vec()
    };
    let uuids: Vec<_> = infos(&path).iter().map(|p| p.uuid).collect();
    assert!(!uuids.is_empty());
    assert!(jbk::reader::Container::new(&path).unwrap().check().unwrap());
    let r = jbk::tools::set_location(&path, uuids[0], "elsewhere/pack.jbkc".into());
    let r = r.expect("set_location must not fail on a valid container");
    assert!(r.is_some(), "pack is in the manifest");
    let info = infos(&path).iter().find(|p| p.uuid == uuids[0]).unwrap().clone();
    assert_eq!(info.pack_location.as_str(), "elsewhere/pack.jbkc");
    assert!(jbk::reader::Container::new(&path).unwrap().check().unwrap(), "container still verifies after the rewrite");
    println!("F9 demo: OK");
}
