// F3 demo: signed integer columns must read back exactly (the column width must account for the sign bit and for negative values).
use jubako as jbk;
use jbk::creator::{schema, EntryStoreTrait};
use jbk::reader::builder::AnyBuilder;
use jbk::reader::{EntryTrait, Range};
use std::collections::HashMap;
use std::sync::Arc;
type EntryType = jbk::creator::BasicEntry<&'static str, &'static str>;
type EntryStore = jbk::creator::EntryStore<&'static str, &'static str, EntryType>;
struct Store { entry_store: Box<EntryStore>, n: u32 }
impl EntryStoreTrait for Store {
    fn finalize(self: Box<Self>, directory_pack: &mut jbk::creator::DirectoryPackCreator) {
        let id = directory_pack.add_entry_store(self.entry_store);
        directory_pack.create_index("main", Default::default(), 0.into(), id, self.n.into(), jbk::EntryIdx::from(0).into());
    }
}
fn roundtrip(values: &[i64]) -> Vec<i64> {
    let dir = tempfile::tempdir().unwrap();
    let path = dir.path().join("f3.jbk");
    let p = camino::Utf8Path::from_path(&path).unwrap();
    let creator = jbk::creator::BasicCreator::new(p, jbk::creator::ConcatMode::OneFile, jbk::VendorId::new([1, 2, 3, 4]), jbk::creator::Compression::None, Arc::new(())).unwrap();
    let schema = schema::Schema::new(schema::CommonProperties::new(vec![schema::Property::new_sint("S"), schema::Property::new_uint("U")]), vec![], None);
    let mut es = Box::new(Store { entry_store: Box::new(jbk::creator::EntryStore::new(schema, None)), n: values.len() as u32 });
    for (i, v) in values.iter().enumerate() {
        let e = EntryType::new_from_schema(&es.entry_store.schema, None, HashMap::from([("S", jbk::Value::Signed(*v)), ("U", jbk::Value::Unsigned(i as u64))]));
        es.entry_store.add_entry(e);
    }
    creator.finalize(es, vec![]).unwrap();
    let container = jbk::reader::Container::new(&path).unwrap();
    let index = container.get_index_for_name("main").unwrap().unwrap();
    let builder = AnyBuilder::new(index.get_store(container.get_entry_storage()).unwrap(), container.get_value_storage().as_ref()).unwrap();
    (0..values.len() as u32).map(|i| index.get_entry(&builder, i.into()).unwrap().unwrap().get_value("S").unwrap().unwrap().as_signed()).collect()
}
fn main() {
    for values in [vec![128i64, 0], vec![-129, 0], vec![200, 200], vec![i64::MIN, 5], vec![i64::MAX, -1], vec![127, -128], vec![32767, -32768, 32768], vec![-1, -2], vec![0x7fffff, -0x800000]] {
        let got = roundtrip(&values);
        assert_eq!(got, values, "signed column does not read back");
    }
    println!("F3 demo: OK");
}
