// F14 demo: a store sorted on "name" may hold two entries with the same name (non-decreasing order); creation must succeed
// and both entries must read back.
use jbk::creator::{schema, EntryStoreTrait};
use jbk::reader::builder::AnyBuilder;
use jbk::reader::{EntryTrait, Range};
use jubako as jbk;
use std::collections::HashMap;
use std::sync::Arc;

const VENDOR_ID: jbk::VendorId = jbk::VendorId::new([1, 2, 3, 4]);
type EntryType = jbk::creator::BasicEntry<&'static str, &'static str>;
type EntryStore = jbk::creator::EntryStore<&'static str, &'static str, EntryType>;
struct One { s: Box<EntryStore>, n: u32 }
impl EntryStoreTrait for One {
    fn finalize(self: Box<Self>, directory_pack: &mut jbk::creator::DirectoryPackCreator) {
        let id = directory_pack.add_entry_store(self.s);
        directory_pack.create_index("main", Default::default(), 0.into(), id, self.n.into(), jbk::EntryIdx::from(0).into());
    }
}
fn main() {
    let dir = tempfile::tempdir().unwrap();
    let path = jbk::Utf8PathBuf::from_path_buf(dir.path().join("f14.jbk")).unwrap();
    let creator = jbk::creator::BasicCreator::new(&path, jbk::creator::ConcatMode::OneFile, VENDOR_ID, jbk::creator::Compression::None, Arc::new(())).unwrap();
    let schema = schema::Schema::new(schema::CommonProperties::new(vec![schema::Property::new_uint("name"), schema::Property::new_uint("id")]), vec![], Some(vec!["name"]));
    let mut s = Box::new(EntryStore::new(schema, None));
    let names = [5u64, 3, 5, 1];
    for (i, n) in names.iter().enumerate() {
        let e = EntryType::new_from_schema(&s.schema, None, HashMap::from([("name", jbk::Value::Unsigned(*n)), ("id", jbk::Value::Unsigned(i as u64))]));
        s.add_entry(e);
    }
    creator.finalize(Box::new(One { s, n: names.len() as u32 }), vec![]).unwrap();
    let container = jbk::reader::Container::new(&path).unwrap();
    let index = container.get_index_for_name("main").unwrap().expect("index");
    let b = AnyBuilder::new(index.get_store(container.get_entry_storage()).unwrap(), container.get_value_storage().as_ref()).unwrap();
    let mut got = vec![];
    for pos in 0..names.len() as u32 {
        let entry = index.get_entry(&b, pos.into()).unwrap().expect("entry");
        got.push(entry.get_value("name").unwrap().unwrap().as_unsigned());
    }
    assert_eq!(got, vec![1, 3, 5, 5], "stored in non-decreasing order of the key");
    println!("F14 demo: OK");
}
