// F10 demo: ByteStream::from(ByteRegion) must stream the bytes of the region (like ByteRegion::stream()).
use jubako as jbk;
use std::io::Read;
fn main() {
    let dir = tempfile::tempdir().unwrap();
    let path = dir.path().join("f10.jbkc");
    let mut cp = jbk::creator::ContentPackCreator::new(
        camino::Utf8Path::from_path(&path).unwrap(), jbk::PackId::from(1), jbk::VendorId::new([1, 2, 3, 4]),
        Default::default(), jbk::creator::Compression::None).unwrap();
    let _a0 = cp.add_content(Box::new(std::io::Cursor::new(b"first content".to_vec())), jbk::creator::CompHint::No).unwrap();
    let a1 = cp.add_content(Box::new(std::io::Cursor::new(b"SECOND".to_vec())), jbk::creator::CompHint::No).unwrap();
    let (f, _info) = cp.finalize().unwrap();
    drop(f);
    let pack = jbk::reader::ContentPack::new(jbk::FileSource::open(&path).unwrap().into()).unwrap();
    let region = pack.get_content(a1.content_id).unwrap().unwrap();
    let mut via_stream = vec![];
    region.stream().read_to_end(&mut via_stream).unwrap();
    assert_eq!(via_stream, b"SECOND");
    let mut via_from = vec![];
    let mut s: jbk::reader::ByteStream = region.clone().into();
    s.read_to_end(&mut via_from).unwrap();
    assert_eq!(via_from, b"SECOND", "ByteStream::from(region) does not stream the region's bytes");
    println!("F10 demo: OK");
}
