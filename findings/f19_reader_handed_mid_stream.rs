// F19 demo (noticed by the C01 seeding sub-agent of round 11 as a pre-existing behaviour; reproduced): a Cursor that was read from before
// (position 10) is handed to add_content with hint Yes on a zstd pack, followed by an ordinary second content.
// Before the repair (6fb5fb8): "a: read 1000 bytes, equal=false" and "b: read error Cannot decompress data" -- the first content was copied
// from its cursor on while its size() (1000) was recorded, so the SECOND content, handed in properly, could not be read back.
// After the repair both read back whole.  Run as an example of the crate (copy to examples/), public API + tempfile only.
use jubako as jbk;
use jbk::creator::{BasicCreator, ConcatMode, Compression, CompHint, EntryStoreTrait};
use std::io::{Cursor, Read, Seek, SeekFrom};
use std::sync::Arc;
struct NoEntries;
impl EntryStoreTrait for NoEntries { fn finalize(self: Box<Self>, _d: &mut jbk::creator::DirectoryPackCreator) {} }
fn main() {
    let tmp = tempfile::tempdir().unwrap();
    let path = tmp.path().join("p.jbk");
    let utf8 = jbk::Utf8PathBuf::from_path_buf(path.clone()).unwrap();
    let mut c = BasicCreator::new(&utf8, ConcatMode::OneFile, jbk::VendorId::new([1,2,3,4]), Compression::zstd(), Arc::new(())).unwrap();
    let a: Vec<u8> = b"AAAAAAAAAABBBBBBBBBB".repeat(50);
    let b: Vec<u8> = b"second content ".repeat(50);
    let mut cur = Cursor::new(a.clone());
    cur.seek(SeekFrom::Start(10)).unwrap();
    let ad_a = c.add_content(Box::new(cur), CompHint::Yes).unwrap();
    let ad_b = c.add_content(Box::new(Cursor::new(b.clone())), CompHint::Yes).unwrap();
    c.finalize(Box::new(NoEntries), vec![]).unwrap();
    let cont = jbk::reader::Container::new(&path).unwrap();
    for (ad, exp, name) in [(ad_a, &a, "a"), (ad_b, &b, "b")] {
        match cont.get_bytes(ad) {
            Ok(Some(jbk::reader::MayMissPack::FOUND(Some(r)))) => {
                let mut v = vec![]; 
                match r.stream().read_to_end(&mut v) { Ok(_) => { println!("{name}: read {} bytes, equal={}", v.len(), &v == exp); assert!(&v == exp, "F19: content {name} does not read back"); } Err(e) => panic!("F19: {name}: read error {e}") }
            }
            other => panic!("F19: {name}: not found ({:?})", other.is_ok()),
        }
    }
}
