use jubako as jbk;
use jubako::creator::schema;
use jubako::reader::{EntryTrait, Range};
use std::collections::HashMap;
use std::error::Error;
use std::fs::OpenOptions;

const VENDOR_ID: jbk::VendorId = jbk::VendorId::new([1, 2, 3, 4]);

fn main() -> Result<(), Box<dyn Error>> {
    let dir = tempfile::tempdir()?;
    let dir_path = jbk::Utf8Path::from_path(dir.path()).expect("utf8 tmp dir");
    let manifest_path = dir_path.join("test.jbkm");
    let directory_path = dir_path.join("test.jbkd");

    let mut directory_pack = jbk::creator::DirectoryPackCreator::new(
        jbk::PackId::from(0),
        VENDOR_ID,
        Default::default(),
    );
    let entry_def = schema::Schema::<&str, &str>::new(
        schema::CommonProperties::new(vec![
            schema::Property::new_uint("C"),
        ]),
        vec![
            ("A", schema::VariantProperties::new(vec![
                schema::Property::new_uint("X"),
                schema::Property::new_uint("Y"),
            ])),
            ("B", schema::VariantProperties::new(vec![
                schema::Property::new_uint("Z"),
            ])),
        ],
        None,
    );
    let mut entry_store = Box::new(jbk::creator::EntryStore::new(entry_def, None));
    for i in 0..3u64 {
        entry_store.add_entry(jbk::creator::BasicEntry::new_from_schema(
            &entry_store.schema,
            Some("A"),
            HashMap::from([
                ("C", jbk::Value::Unsigned(i)),
                ("X", jbk::Value::Unsigned(i+10)),
                ("Y", jbk::Value::Unsigned(7)),
            ]),
        ));
    }
    entry_store.add_entry(jbk::creator::BasicEntry::new_from_schema(
        &entry_store.schema,
        Some("B"),
        HashMap::from([
            ("C", jbk::Value::Unsigned(9)),
            ("Z", jbk::Value::Unsigned(3)),
        ]),
    ));
    let entry_store_id = directory_pack.add_entry_store(entry_store);
    directory_pack.create_index(
        "My own index",
        Default::default(),
        0.into(),
        entry_store_id,
        4.into(),
        jbk::EntryIdx::from(0).into(),
    );
    let mut directory_file = OpenOptions::new().read(true).write(true).create(true).truncate(true).open(&directory_path)?;
    let directory_pack_info = directory_pack.finalize()?.write(&mut directory_file)?;
    drop(directory_file);
    let mut manifest_creator = jbk::creator::ManifestPackCreator::new(VENDOR_ID, Default::default());
    manifest_creator.add_pack(directory_pack_info, "test.jbkd");
    let mut manifest_file = OpenOptions::new().read(true).write(true).create(true).truncate(true).open(&manifest_path)?;
    manifest_creator.finalize(&mut manifest_file)?;
    drop(manifest_file);

    let container = jbk::reader::Container::new(&manifest_path)?;
    let index = container.get_index_for_name("My own index")?.expect("index is present");
    let builder = jbk::reader::builder::AnyBuilder::new(
        index.get_store(container.get_entry_storage())?,
        container.get_value_storage().as_ref(),
    )?;
    for idx in 0..4u32 {
        let entry = index.get_entry(&builder, idx.into())?.expect("entry is present");
        println!("{:?} C={:?}", entry.get_variant_id()?, entry.get_value("C")?.unwrap().as_unsigned());
        if idx < 3 {
            println!(" X={:?} Y={:?}", entry.get_value("X")?.unwrap().as_unsigned(), entry.get_value("Y")?.unwrap().as_unsigned());
        }
    }
    println!("OK");
    Ok(())
}
