// F12 demo: a content pack may carry any 16-bit pack id; with id 0xFFFF the container must still open and serve its content.
use jubako as jbk;
use jbk::creator::schema;
use std::collections::HashMap;
use std::fs::OpenOptions;
use std::io::Read;
const VENDOR_ID: jbk::VendorId = jbk::VendorId::new([1, 2, 3, 4]);
const CONTENT: &[u8] = b"A super content prime quality for our test container";
fn main() {
    let dir = tempfile::tempdir().unwrap();
    let p = |n: &str| dir.path().join(n);
    let id = jbk::PackId::from(0xFFFFu16);
    let mut content_pack = jbk::creator::ContentPackCreator::new(camino::Utf8PathBuf::from_path_buf(p("t.jbkc")).unwrap(), id, VENDOR_ID, Default::default(), jbk::creator::Compression::None).unwrap();
    let mut directory_pack = jbk::creator::DirectoryPackCreator::new(jbk::PackId::from(0), VENDOR_ID, Default::default());
    let value_store = jbk::creator::ValueStore::new_plain(None);
    let entry_def: schema::Schema<&'static str, &'static str> = schema::Schema::new(
        schema::CommonProperties::new(vec![schema::Property::new_uint("AInteger"), schema::Property::new_content_address("TheContent")]),
        vec![], None);
    let mut entry_store = Box::new(jbk::creator::EntryStore::new(entry_def, None));
    let addr = content_pack.add_content(Box::new(std::io::Cursor::new(CONTENT.to_vec())), Default::default()).unwrap();
    assert_eq!(addr.pack_id, id);
    entry_store.add_entry(jbk::creator::BasicEntry::new_from_schema(&entry_store.schema, None,
        HashMap::from([("AInteger", jbk::Value::Unsigned(50)), ("TheContent", jbk::Value::Content(addr))])));
    directory_pack.add_value_store(value_store);
    let es = directory_pack.add_entry_store(entry_store);
    directory_pack.create_index("main", Default::default(), 0.into(), es, 1.into(), jbk::EntryIdx::from(0).into());
    let mut df = OpenOptions::new().read(true).write(true).create(true).truncate(true).open(p("t.jbkd")).unwrap();
    let dinfo = directory_pack.finalize().unwrap().write(&mut df).unwrap();
    let (_f, cinfo) = content_pack.finalize().unwrap();
    let mut m = jbk::creator::ManifestPackCreator::new(VENDOR_ID, Default::default());
    m.add_pack(dinfo, "t.jbkd");
    m.add_pack(cinfo, "t.jbkc");
    let mut mf = OpenOptions::new().read(true).write(true).create(true).truncate(true).open(p("t.jbkm")).unwrap();
    m.finalize(&mut mf).unwrap();
    drop(mf); drop(df);

    let c = jbk::reader::Container::new(p("t.jbkm")).expect("container with pack id 0xFFFF must open");
    let got = c.get_bytes(addr).expect("no error").expect("pack id 0xFFFF is in the manifest");
    match got {
        jbk::reader::MayMissPack::FOUND(r) => { let mut v = vec![]; r.expect("content exists").stream().read_to_end(&mut v).unwrap(); assert_eq!(v, CONTENT); }
        jbk::reader::MayMissPack::MISSING(_) => panic!("pack is present but reported missing"),
    }
    println!("F12 demo: OK");
}
