// F5b demo: a container whose stand-alone directory pack file is truncated (or missing) must fail to open with an error, not panic.
#[path = "demo_common.rs"]
mod common;
use jubako as jbk;
fn main() {
    let dir = tempfile::tempdir().unwrap();
    let path = dir.path().join("f5b.jbk");
    common::make_container(&path, jbk::creator::ConcatMode::NoConcat);
    let dpath = std::fs::read_dir(dir.path()).unwrap().map(|e| e.unwrap().path()).find(|p| p.to_string_lossy().ends_with("jbkd")).expect("directory pack file");
    let bytes = std::fs::read(&dpath).unwrap();
    assert!(jbk::reader::Container::new(&path).unwrap().check().unwrap());
    std::panic::set_hook(Box::new(|_| {}));
    let mut panics = vec![];
    for len in 0..bytes.len() {
        std::fs::write(&dpath, &bytes[..len]).unwrap();
        let r = std::panic::catch_unwind(|| jbk::reader::Container::new(&path).map(|c| c.check()));
        if r.is_err() { panics.push(len); }
    }
    std::fs::remove_file(&dpath).unwrap();
    if std::panic::catch_unwind(|| jbk::reader::Container::new(&path).map(|c| c.check())).is_err() { panics.push(usize::MAX); }
    let _ = std::panic::take_hook();
    println!("directory pack length {}, panics: {}", bytes.len(), panics.len());
    if !panics.is_empty() { println!("first panicking lengths: {:?}", &panics[..panics.len().min(8)]); std::process::exit(1); }
    println!("F5b demo: OK");
}
