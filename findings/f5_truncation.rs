// F5 demo: opening a container truncated at ANY length must return an error (or a value), never panic.
#[path = "demo_common.rs"]
mod common;
use jubako as jbk;
fn main() {
    let dir = tempfile::tempdir().unwrap();
    let path = dir.path().join("f5.jbk");
    common::make_container(&path, jbk::creator::ConcatMode::OneFile);
    let bytes = std::fs::read(&path).unwrap();
    std::panic::set_hook(Box::new(|_| {}));
    let mut panics = vec![];
    let mut oks = 0;
    for len in 0..bytes.len() {
        let p = dir.path().join("t.jbk");
        std::fs::write(&p, &bytes[..len]).unwrap();
        let r = std::panic::catch_unwind(|| jbk::reader::Container::new(&p).map(|c| c.check()));
        match r { Err(_) => panics.push(len), Ok(Ok(_)) => oks += 1, Ok(Err(_)) => {} }
    }
    let _ = std::panic::take_hook();
    println!("file length {}, truncations opened without error: {}, panics: {}", bytes.len(), oks, panics.len());
    if !panics.is_empty() {
        println!("first panicking lengths: {:?}", &panics[..panics.len().min(10)]);
        std::process::exit(1);
    }
    println!("F5 demo: OK");
}
