// Demo for mutation 3.
//
// An array property (`char[]`, spec/directory.rst) can keep the first bytes of the array in the
// entry itself (fixed part) and deport the remaining bytes in a value store.
// The entry stores the FULL size of the array, then the fixed part, then the id of the
// deported part in the value store.
//
// Here the schema keeps the first TWO bytes of the name in the entry (`new_array(2, ..)`).
// (Examples and tests use 0 (everything deported), 1 is the other common choice.)
// We write names shorter than, equal to and longer than the fixed part, and we read them back.
use jubako as jbk;
use jubako::creator::schema;
use jubako::reader::{EntryTrait, Range};
use std::collections::HashMap;
use std::error::Error;
use std::fs::OpenOptions;

const VENDOR_ID: jbk::VendorId = jbk::VendorId::new([1, 2, 3, 4]);

const NAMES: [&str; 6] = ["", "a", "ab", "abc", "abcdefgh", "some/longer/path/to/a/file.txt"];

fn main() -> Result<(), Box<dyn Error>> {
    for kind in ["plain", "indexed"] {
        run(kind)?;
    }
    println!("OK");
    Ok(())
}

fn run(store_kind: &str) -> Result<(), Box<dyn Error>> {
    let dir = tempfile::tempdir()?;
    let dir_path = jbk::Utf8Path::from_path(dir.path()).expect("utf8 tmp dir");
    let manifest_path = dir_path.join("test.jbkm");
    let directory_path = dir_path.join("test.jbkd");

    let mut directory_pack = jbk::creator::DirectoryPackCreator::new(
        jbk::PackId::from(0),
        VENDOR_ID,
        Default::default(),
    );
    let value_store = match store_kind {
        "plain" => jbk::creator::ValueStore::new_plain(None),
        _ => jbk::creator::ValueStore::new_indexed(),
    };
    let entry_def = schema::Schema::<&str, &str>::new(
        schema::CommonProperties::new(vec![
            schema::Property::new_array(40, value_store.clone(), "Name"),
            schema::Property::new_uint("Len"),
        ]),
        vec![],
        None,
    );
    let mut entry_store = Box::new(jbk::creator::EntryStore::new(entry_def, None));
    for name in NAMES {
        entry_store.add_entry(jbk::creator::BasicEntry::new_from_schema(
            &entry_store.schema,
            None,
            HashMap::from([
                ("Name", jbk::Value::Array(name.into())),
                ("Len", jbk::Value::Unsigned(name.len() as u64)),
            ]),
        ));
    }
    directory_pack.add_value_store(value_store);
    let entry_store_id = directory_pack.add_entry_store(entry_store);
    directory_pack.create_index(
        "My own index",
        Default::default(),
        0.into(),
        entry_store_id,
        (NAMES.len() as u32).into(),
        jbk::EntryIdx::from(0).into(),
    );
    let mut directory_file = OpenOptions::new()
        .read(true)
        .write(true)
        .create(true)
        .truncate(true)
        .open(&directory_path)?;
    let directory_pack_info = directory_pack.finalize()?.write(&mut directory_file)?;
    drop(directory_file);

    let mut manifest_creator =
        jbk::creator::ManifestPackCreator::new(VENDOR_ID, Default::default());
    manifest_creator.add_pack(directory_pack_info, "test.jbkd");
    let mut manifest_file = OpenOptions::new()
        .read(true)
        .write(true)
        .create(true)
        .truncate(true)
        .open(&manifest_path)?;
    manifest_creator.finalize(&mut manifest_file)?;
    drop(manifest_file);

    // Read back
    let container = jbk::reader::Container::new(&manifest_path)?;
    assert!(container.check()?);
    let index = container
        .get_index_for_name("My own index")?
        .expect("index is present");
    let builder = jbk::reader::builder::AnyBuilder::new(
        index.get_store(container.get_entry_storage())?,
        container.get_value_storage().as_ref(),
    )?;
    for (idx, name) in NAMES.iter().enumerate() {
        let entry = index
            .get_entry(&builder, (idx as u32).into())?
            .expect("entry is present");
        assert_eq!(
            entry.get_value("Len")?.unwrap().as_unsigned(),
            name.len() as u64
        );
        let read_name = entry.get_value("Name")?.unwrap().as_vec()?;
        assert_eq!(
            String::from_utf8_lossy(&read_name),
            *name,
            "{store_kind} value store, entry {idx}: the name read is not the name written"
        );
    }
    Ok(())
}
