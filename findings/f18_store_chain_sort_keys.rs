// F18 demo (written by the C15 seeding sub-agent as a pre-existing failure; reproduced): three stores -- "refs" references "targets", "targets" is SORTED on a reference to "anchors", "anchors" is added last and reversed by its own sort.
// C15 demonstration 1.
//
// Two entry stores in one directory pack:
//  - "refs"   (added FIRST, unsorted): two entries, each one holds a reference ("target")
//             to an entry of the other store;
//  - "targets" (added LAST, sorted on "key"): 300 entries, added in decreasing key order,
//             so sorting reverses the store: the entry added first ends at position 299.
//
// Property checked: the value stored for "target" is the final position of the referenced
// entry (the one the handle returned by `add_entry` reports after finalisation), and the
// entry found at that position in "targets" is really the referenced one.
use jbk::creator::schema;
use jbk::reader::builder::AnyBuilder;
use jbk::reader::{EntryTrait, Range};
use jubako as jbk;
use std::collections::HashMap;
use std::error::Error;
use std::sync::Arc;

type Entry = jbk::creator::BasicEntry<&'static str, &'static str>;

const NB_TARGETS: u64 = 300;

fn main() -> Result<(), Box<dyn Error>> {
    let mut creator = jbk::creator::DirectoryPackCreator::new(
        jbk::PackId::from(0),
        jbk::VendorId::new([1, 2, 3, 4]),
        Default::default(),
    );

    // The store holding the referenced entries. Sorted on "key".
    let anchor_schema = schema::Schema::<&'static str, &'static str>::new(
        schema::CommonProperties::new(vec![
            schema::Property::new_uint("key"),
        ]),
        vec![],
        Some(vec!["key"]),
    );
    let mut anchors = Box::new(jbk::creator::EntryStore::new(anchor_schema, None));
    let mut anchor_handles = vec![];
    for i in 0..NB_TARGETS {
        let entry = Entry::new_from_schema(
            &anchors.schema,
            None,
            HashMap::from([("key", jbk::Value::Unsigned(1000 - i))]),
        );
        anchor_handles.push(anchors.add_entry(entry));
    }
    let target_schema = schema::Schema::<&'static str, &'static str>::new(
        schema::CommonProperties::new(vec![
            schema::Property::new_uint("key"),
            schema::Property::new_uint("payload"),
        ]),
        vec![],
        Some(vec!["key"]),
    );
    let mut targets = Box::new(jbk::creator::EntryStore::new(target_schema, None));
    let mut target_handles = vec![];
    for i in 0..NB_TARGETS {
        let entry = Entry::new_from_schema(
            &targets.schema,
            None,
            HashMap::from([
                ("key", jbk::Value::UnsignedWord(anchor_handles[i as usize].clone().into())),
                ("payload", jbk::Value::Unsigned(5000 + i)),
            ]),
        );
        target_handles.push(targets.add_entry(entry));
    }

    // The store holding the references.
    let ref_schema = schema::Schema::<&'static str, &'static str>::new(
        schema::CommonProperties::new(vec![
            schema::Property::new_uint("id"),
            schema::Property::new_uint("target"),
        ]),
        vec![],
        None,
    );
    let mut refs = Box::new(jbk::creator::EntryStore::new(ref_schema, None));
    // References to the two entries added first in "targets" (added at 0 and 1, final 299 and 298)
    let referenced = [0_usize, 1_usize];
    for (id, t) in referenced.iter().enumerate() {
        let entry = Entry::new_from_schema(
            &refs.schema,
            None,
            HashMap::from([
                ("id", jbk::Value::Unsigned(id as u64)),
                (
                    "target",
                    jbk::Value::UnsignedWord(target_handles[*t].clone().into()),
                ),
            ]),
        );
        refs.add_entry(entry);
    }

    // "refs" is added first, "targets" last.
    let refs_id = creator.add_entry_store(refs);
    let targets_id = creator.add_entry_store(targets);
    creator.add_entry_store(anchors);
    creator.create_index(
        "refs",
        Default::default(),
        0.into(),
        refs_id,
        (referenced.len() as u32).into(),
        jbk::EntryIdx::from(0).into(),
    );
    creator.create_index(
        "targets",
        Default::default(),
        0.into(),
        targets_id,
        (NB_TARGETS as u32).into(),
        jbk::EntryIdx::from(0).into(),
    );

    let dir = tempfile::tempdir()?;
    let path = dir.path().join("demo_1.jbkd");
    let mut file = std::fs::OpenOptions::new()
        .read(true)
        .write(true)
        .create(true)
        .truncate(true)
        .open(&path)?;
    creator.finalize()?.write(&mut file)?;
    drop(file);

    // Read back
    let reader: jbk::Reader = jbk::FileSource::open(&path)?.into();
    let pack = Arc::new(jbk::reader::DirectoryPack::new(reader)?);
    let entry_storage = pack.create_entry_storage();
    let value_storage = pack.create_value_storage();

    let refs_index = pack.get_index_from_name("refs")?.expect("refs index");
    let refs_builder = AnyBuilder::new(
        refs_index.get_store(&entry_storage)?,
        value_storage.as_ref(),
    )?;
    let targets_index = pack.get_index_from_name("targets")?.expect("targets index");
    let targets_builder = AnyBuilder::new(
        targets_index.get_store(&entry_storage)?,
        value_storage.as_ref(),
    )?;

    for (id, t) in referenced.iter().enumerate() {
        let expected_final = NB_TARGETS - 1 - *t as u64;
        // The handle reports the final position
        let handle_pos = target_handles[*t].get().into_u64();
        assert_eq!(
            handle_pos, expected_final,
            "handle of target #{t} must report its final position"
        );

        let entry = refs_index
            .get_entry(&refs_builder, (id as u32).into())?
            .expect("ref entry");
        assert_eq!(entry.get_value("id")?.unwrap().as_unsigned(), id as u64);
        let stored = entry.get_value("target")?.unwrap().as_unsigned();
        println!("ref #{id}: stored target = {stored}, final position = {expected_final}");
        assert_eq!(
            stored, expected_final,
            "stored reference must be the final position of the referenced entry"
        );

        // And the entry at that position is the referenced one.
        let target = targets_index
            .get_entry(&targets_builder, (stored as u32).into())?
            .expect("target entry");
        assert_eq!(
            target.get_value("payload")?.unwrap().as_unsigned(),
            5000 + *t as u64
        );
    }
    println!("OK");
    Ok(())
}
