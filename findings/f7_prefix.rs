// F7 demo: a one-file container appended to an arbitrary prefix (e.g. a launcher script) must open through its mirrored tail.
#[path = "demo_common.rs"]
mod common;
use jubako as jbk;
use std::io::Read;
fn main() {
    let dir = tempfile::tempdir().unwrap();
    let path = dir.path().join("f7.jbk");
    common::make_container(&path, jbk::creator::ConcatMode::OneFile);
    let container_bytes = std::fs::read(&path).unwrap();
    let mut prefixed = b"#!/bin/sh\nexec my-launcher \"$0\" \"$@\"\n".to_vec();
    prefixed.extend_from_slice(&container_bytes);
    let ppath = dir.path().join("f7_prefixed.bin");
    std::fs::write(&ppath, &prefixed).unwrap();
    let c = jbk::reader::Container::new(&ppath).expect("a container embedded at the end of another file must open");
    assert!(c.check().unwrap());
    let addr = jbk::ContentAddress::new(jbk::PackId::from(1), jbk::ContentIdx::from(1));
    match c.get_bytes(addr).unwrap().unwrap() {
        jbk::reader::MayMissPack::FOUND(r) => { let mut v = vec![]; r.unwrap().stream().read_to_end(&mut v).unwrap(); assert_eq!(v, common::CONTENT_B); }
        _ => panic!("missing"),
    }
    println!("F7 demo: OK");
}
