// F4 demo: the size a container pack declares in its header must be the number of bytes it occupies
// (check position + check block + 64-byte tail), as for every other pack kind.
#[path = "demo_common.rs"]
mod common;
use jubako as jbk;
fn main() {
    let dir = tempfile::tempdir().unwrap();
    let path = dir.path().join("f4.jbk");
    common::make_container(&path, jbk::creator::ConcatMode::OneFile);
    let bytes = std::fs::read(&path).unwrap();
    assert_eq!(&bytes[0..4], b"jbkC");
    let declared = u64::from_le_bytes(bytes[32..40].try_into().unwrap());
    let check_pos = u64::from_le_bytes(bytes[40..48].try_into().unwrap());
    assert_eq!(declared, bytes.len() as u64, "declared container size vs real size (check_pos = {check_pos})");
    // the mirrored tail is the reversed header block
    let mut tail = bytes[bytes.len() - 64..].to_vec();
    tail.reverse();
    assert_eq!(&tail[..], &bytes[..64]);
    println!("F4 demo: OK");
}
