// F11 demo: a container written by BasicCreator with the content pack in its own file must read its contents back.
#[path = "demo_common.rs"]
mod common;
use jubako as jbk;
use std::io::Read;
fn read_all(c: &jbk::reader::Container, pack: u16, content: u32) -> Vec<u8> {
    let addr = jbk::ContentAddress::new(jbk::PackId::from(pack), jbk::ContentIdx::from(content));
    match c.get_bytes(addr).expect("get_bytes must not be an error").expect("pack id is in the manifest") {
        jbk::reader::MayMissPack::FOUND(r) => { let mut v = vec![]; r.expect("content exists").stream().read_to_end(&mut v).unwrap(); v }
        jbk::reader::MayMissPack::MISSING(_) => panic!("pack reported missing but its file is there"),
    }
}
fn main() {
    for (name, mode) in [("one", jbk::creator::ConcatMode::OneFile), ("two", jbk::creator::ConcatMode::TwoFiles), ("no", jbk::creator::ConcatMode::NoConcat)] {
        let dir = tempfile::tempdir().unwrap();
        let path = dir.path().join(format!("f11_{name}.jbk"));
        common::make_container(&path, mode);
        let c = jbk::reader::Container::new(&path).unwrap();
        assert!(c.check().unwrap());
        assert_eq!(read_all(&c, 1, 0), common::CONTENT_A, "mode {name}");
        assert_eq!(read_all(&c, 1, 1), common::CONTENT_B, "mode {name}");
    }
    // identity is the uuid, not the location: a *different* valid pack at the recorded location is "missing"
    let dir = tempfile::tempdir().unwrap();
    let a = dir.path().join("a.jbk");
    let b = dir.path().join("b.jbk");
    common::make_container(&a, jbk::creator::ConcatMode::TwoFiles);
    common::make_container(&b, jbk::creator::ConcatMode::TwoFiles);
    std::fs::copy(dir.path().join("b.jbkc"), dir.path().join("a.jbkc")).unwrap();
    let c = jbk::reader::Container::new(&a).unwrap();
    let addr = jbk::ContentAddress::new(jbk::PackId::from(1), jbk::ContentIdx::from(0));
    match c.get_bytes(addr).expect("a foreign pack at the location is not an error").expect("pack id is in the manifest") {
        jbk::reader::MayMissPack::MISSING(info) => assert_eq!(info.pack_id, jbk::PackId::from(1)),
        jbk::reader::MayMissPack::FOUND(_) => panic!("a pack with another uuid must not be used"),
    }
    println!("F11 demo: OK");
}
