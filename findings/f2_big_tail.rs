// F2 demo: a store whose tail block exceeds the 16-bit size field of its sized offset must make creation FAIL;
// today the size is silently truncated and the container cannot be opened.
use jubako as jbk;
use jbk::creator::{schema, EntryStoreTrait};
use std::collections::HashMap;
use std::sync::Arc;
type EntryType = jbk::creator::BasicEntry<&'static str, &'static str>;
type EntryStore = jbk::creator::EntryStore<&'static str, &'static str, EntryType>;
struct Store { value_store: jbk::creator::StoreHandle, entry_store: Box<EntryStore>, n: u32 }
impl EntryStoreTrait for Store {
    fn finalize(self: Box<Self>, directory_pack: &mut jbk::creator::DirectoryPackCreator) {
        directory_pack.add_value_store(self.value_store);
        let id = directory_pack.add_entry_store(self.entry_store);
        directory_pack.create_index("main", Default::default(), 0.into(), id, self.n.into(), jbk::EntryIdx::from(0).into());
    }
}
fn main() {
    let dir = tempfile::tempdir().unwrap();
    let path = dir.path().join("f2.jbk");
    let p = camino::Utf8Path::from_path(&path).unwrap();
    let creator = jbk::creator::BasicCreator::new(p, jbk::creator::ConcatMode::OneFile, jbk::VendorId::new([1, 2, 3, 4]), jbk::creator::Compression::None, Arc::new(())).unwrap();
    let value_store = jbk::creator::ValueStore::new_indexed();
    let schema = schema::Schema::new(schema::CommonProperties::new(vec![schema::Property::new_array(0, value_store.clone(), "A")]), vec![], None);
    let n = 30_000u32;
    let mut es = Box::new(Store { value_store, entry_store: Box::new(jbk::creator::EntryStore::new(schema, None)), n });
    for i in 0..n {
        let s = vec![(i & 0xff) as u8, ((i >> 8) & 0xff) as u8, 7u8];
        let e = EntryType::new_from_schema(&es.entry_store.schema, None, HashMap::from([("A", jbk::Value::Array(s.into()))]));
        es.entry_store.add_entry(e);
    }
    match creator.finalize(es, vec![]) {
        Err(e) => { println!("creation failed as it must: {e}"); }
        Ok(()) => {
            // if creation succeeds, the container must be readable
            let c = jbk::reader::Container::new(&path).expect("a container created without error must open");
            let index = c.get_index_for_name("main").unwrap().unwrap();
            let _ = index.get_store(c.get_entry_storage()).expect("entry store must load");
            let _ = jbk::reader::builder::AnyBuilder::new(index.get_store(c.get_entry_storage()).unwrap(), c.get_value_storage().as_ref()).expect("value store must load");
        }
    }
    println!("F2 demo: OK");
}
