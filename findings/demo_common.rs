// shared helper for the finding demos: builds a small container with BasicCreator (3 entries, 2 contents)
use jubako as jbk;
use jbk::creator::{schema, EntryStoreTrait};
use std::collections::HashMap;
use std::sync::Arc;

pub const VENDOR_ID: jbk::VendorId = jbk::VendorId::new([1, 2, 3, 4]);
type EntryType = jbk::creator::BasicEntry<&'static str, &'static str>;
type EntryStore = jbk::creator::EntryStore<&'static str, &'static str, EntryType>;
pub struct CustomEntryStore { value_store: jbk::creator::StoreHandle, entry_store: Box<EntryStore> }
impl CustomEntryStore {
    pub fn new() -> Self {
        let value_store = jbk::creator::ValueStore::new_plain(None);
        let schema = schema::Schema::new(
            schema::CommonProperties::new(vec![
                schema::Property::new_array(0, value_store.clone(), "AString"),
                schema::Property::new_uint("AInteger"),
                schema::Property::new_content_address("TheContent"),
            ]), vec![], None);
        Self { value_store, entry_store: Box::new(jbk::creator::EntryStore::new(schema, None)) }
    }
    pub fn add(&mut self, s: &str, i: u64, c: jbk::ContentAddress) {
        let e = EntryType::new_from_schema(&self.entry_store.schema, None, HashMap::from([
            ("AString", jbk::Value::Array(s.into())), ("AInteger", jbk::Value::Unsigned(i)), ("TheContent", jbk::Value::Content(c))]));
        self.entry_store.add_entry(e);
    }
}
impl EntryStoreTrait for CustomEntryStore {
    fn finalize(self: Box<Self>, directory_pack: &mut jbk::creator::DirectoryPackCreator) {
        directory_pack.add_value_store(self.value_store);
        let id = directory_pack.add_entry_store(self.entry_store);
        directory_pack.create_index("main", Default::default(), 0.into(), id, 2.into(), jbk::EntryIdx::from(0).into());
    }
}
pub const CONTENT_A: &[u8] = b"A super content prime quality for our test container";
pub const CONTENT_B: &[u8] = b"second content, different bytes 0123456789";
pub fn make_container(path: &std::path::Path, mode: jbk::creator::ConcatMode) {
    let p = camino::Utf8Path::from_path(path).unwrap();
    let mut creator = jbk::creator::BasicCreator::new(p, mode, VENDOR_ID, jbk::creator::Compression::None, Arc::new(())).unwrap();
    let mut es = Box::new(CustomEntryStore::new());
    let a = creator.add_content(Box::new(std::io::Cursor::new(CONTENT_A.to_vec())), jbk::creator::CompHint::No).unwrap();
    es.add("first", 1, a);
    let b = creator.add_content(Box::new(std::io::Cursor::new(CONTENT_B.to_vec())), jbk::creator::CompHint::No).unwrap();
    es.add("second", 2, b);
    creator.finalize(es, vec![]).unwrap();
}
