// F1 demo: a cluster whose compressed size needs more bytes than its data size.
// 250 incompressible bytes with CompHint::Yes: zstd output is > 255 bytes, tail width is nb(250) = 1.
use jubako as jbk;
use std::io::Read;
fn main() {
    let dir = tempfile::tempdir().unwrap();
    let path = dir.path().join("f1.jbkc");
    let mut data = vec![0u8; 250];
    let mut x: u32 = 0x12345678;
    for b in data.iter_mut() { x ^= x << 13; x ^= x >> 17; x ^= x << 5; *b = (x & 0xff) as u8; }
    let mut cp = jbk::creator::ContentPackCreator::new(
        camino::Utf8Path::from_path(&path).unwrap(), jbk::PackId::from(1), jbk::VendorId::new([1, 2, 3, 4]),
        Default::default(), jbk::creator::Compression::default()).unwrap();
    let addr = cp.add_content(Box::new(std::io::Cursor::new(data.clone())), jbk::creator::CompHint::Yes).unwrap();
    let (_f, _info) = cp.finalize().unwrap();
    drop(_f);
    let pack = jbk::reader::ContentPack::new(jbk::FileSource::open(&path).unwrap().into()).unwrap();
    let bytes = pack.get_content(addr.content_id).unwrap().unwrap();
    let mut v = vec![];
    bytes.stream().read_to_end(&mut v).unwrap();
    assert_eq!(v, data, "content does not read back");
    println!("F1 demo: OK ({} bytes read back)", v.len());
}
