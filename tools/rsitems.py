#!/usr/bin/env python3
"""Rust-aware lexer and item locator used by the extractor (tools/vx.py).

Only what extraction needs: a tokenizer that knows comments, strings, raw
strings, byte strings, char literals vs. lifetimes; bracket matching; and a
locator for items (`fn`, `struct`, `enum`, `const`, `static`, `type`, `trait`,
`impl`, `mod`, `macro_rules!`) by scope path.  Nothing here rewrites text.
"""
import re
from dataclasses import dataclass


class AnchorLost(Exception):
    """An item / anchor named by a template is not in the source any more."""


@dataclass
class Tok:
    kind: str   # 'ident' 'punct' 'str' 'char' 'life' 'num' 'comment' 'doc'
    text: str
    pos: int    # byte offset of first char
    end: int    # offset one past the last char


_ident_re = re.compile(r'[A-Za-z_][A-Za-z0-9_]*')
_num_re = re.compile(r'[0-9][0-9A-Za-z_]*(\.[0-9][0-9A-Za-z_]*)?')


def lex(src):
    """Return list of tokens (comments included, kind 'comment'/'doc')."""
    toks = []
    i, n = 0, len(src)
    while i < n:
        c = src[i]
        if c.isspace():
            i += 1
            continue
        if src.startswith('//', i):
            j = src.find('\n', i)
            if j < 0:
                j = n
            kind = 'doc' if (src.startswith('///', i) and not src.startswith('////', i)) or src.startswith('//!', i) else 'comment'
            toks.append(Tok(kind, src[i:j], i, j))
            i = j
            continue
        if src.startswith('/*', i):
            depth, j = 1, i + 2
            while j < n and depth:
                if src.startswith('/*', j):
                    depth += 1
                    j += 2
                elif src.startswith('*/', j):
                    depth -= 1
                    j += 2
                else:
                    j += 1
            toks.append(Tok('comment', src[i:j], i, j))
            i = j
            continue
        # raw strings r"..", r#".."#, br#..
        m = re.match(r'(b|c)?r(#*)"', src[i:i + 40])
        if m:
            hashes = m.group(2)
            close = '"' + hashes
            j = src.find(close, i + m.end())
            if j < 0:
                raise ValueError('unterminated raw string')
            j += len(close)
            toks.append(Tok('str', src[i:j], i, j))
            i = j
            continue
        if c == '"' or (c in 'bc' and i + 1 < n and src[i + 1] == '"'):
            j = i + (1 if c == '"' else 2)
            while j < n and src[j] != '"':
                if src[j] == '\\':
                    j += 1
                j += 1
            j += 1
            toks.append(Tok('str', src[i:j], i, j))
            i = j
            continue
        if c == "'" or (c == 'b' and i + 1 < n and src[i + 1] == "'"):
            k = i + (1 if c == "'" else 2)
            # char literal or lifetime?
            if c == "'" :
                m2 = _ident_re.match(src, k)
                if m2 and not (m2.end() < n and src[m2.end()] == "'"):
                    toks.append(Tok('life', src[i:m2.end()], i, m2.end()))
                    i = m2.end()
                    continue
            j = k
            if src[j] == '\\':
                j += 2
                while j < n and src[j] != "'":
                    j += 1
            else:
                j += 1
                while j < n and src[j] != "'":   # multi-byte char
                    j += 1
            j += 1
            toks.append(Tok('char', src[i:j], i, j))
            i = j
            continue
        m = _ident_re.match(src, i)
        if m:
            toks.append(Tok('ident', m.group(0), i, m.end()))
            i = m.end()
            continue
        m = _num_re.match(src, i)
        if m:
            toks.append(Tok('num', m.group(0), i, m.end()))
            i = m.end()
            continue
        toks.append(Tok('punct', c, i, i + 1))
        i += 1
    return toks


OPEN = {'(': ')', '[': ']', '{': '}'}
CLOSE = {')', ']', '}'}


def code_toks(toks):
    return [t for t in toks if t.kind not in ('comment', 'doc')]


def match_close(ct, i):
    """ct[i] is an opening bracket token; return index of the matching close."""
    depth = 0
    for j in range(i, len(ct)):
        t = ct[j]
        if t.kind == 'punct':
            if t.text in OPEN:
                depth += 1
            elif t.text in CLOSE:
                depth -= 1
                if depth == 0:
                    return j
    raise ValueError('unbalanced brackets')


ITEM_KW = {'fn', 'struct', 'enum', 'const', 'static', 'type', 'trait', 'impl', 'mod', 'union', 'use', 'macro_rules'}
PREFIX_KW = {'pub', 'unsafe', 'async', 'extern', 'default', 'const'}


@dataclass
class Item:
    kind: str        # fn / struct / impl / ...
    name: str        # name, or normalized header for impl
    start: int       # offset of first token of the item (attributes + visibility included)
    head: int        # offset of the keyword
    body_open: int   # offset of '{' opening the body, or -1
    end: int         # one past the last char ('}' or ';')
    attrs_start: int # == start


def _norm(s):
    s = re.sub(r'\s+', ' ', s.strip())
    s = re.sub(r'\s*([<>,:&()\[\]])\s*', r'\1', s)
    return s


def _skip_angle(ct, i):
    """ct[i] is '<' ; skip generics, return index after matching '>'. Handles '->' inside."""
    depth = 0
    j = i
    while j < len(ct):
        t = ct[j]
        if t.kind == 'punct':
            if t.text == '<':
                depth += 1
            elif t.text == '>':
                if not (j > 0 and ct[j - 1].text == '-' and ct[j - 1].end == t.pos):
                    depth -= 1
                    if depth == 0:
                        return j + 1
            elif t.text in OPEN:
                j = match_close(ct, j)
        j += 1
    raise ValueError('unbalanced <>')


def items_in(src, ct, lo, hi):
    """Enumerate items among code tokens ct[lo:hi] (one nesting level)."""
    out = []
    i = lo
    while i < hi:
        start_i = i
        # attributes
        while i < hi and ct[i].text == '#':
            j = i + 1
            if ct[j].text == '!':
                j += 1
            if ct[j].text != '[':
                break
            i = match_close(ct, j) + 1
        # visibility / qualifiers
        k = i
        while k < hi:
            t = ct[k]
            if t.kind == 'ident' and t.text == 'pub':
                k += 1
                if k < hi and ct[k].text == '(':
                    k = match_close(ct, k) + 1
                continue
            if t.kind == 'ident' and t.text in ('unsafe', 'async', 'default'):
                k += 1
                continue
            if t.kind == 'ident' and t.text == 'extern':
                k += 1
                if k < hi and ct[k].kind == 'str':
                    k += 1
                continue
            if t.kind == 'ident' and t.text == 'const' and k + 1 < hi and ct[k + 1].text in ('fn', 'unsafe', 'async', 'extern'):
                k += 1
                continue
            break
        if k >= hi:
            break
        t = ct[k]
        if t.kind == 'ident' and t.text in ITEM_KW:
            kw = t.text
            # find end: first ';' or '{...}' at depth 0 (skipping (), [], <> lightly)
            j = k + 1
            name = ''
            if kw == 'macro_rules':
                # macro_rules ! name { ... }
                name = ct[k + 2].text
            elif kw != 'impl' and kw != 'use' and j < hi and ct[j].kind == 'ident':
                name = ct[j].text
            body_open = -1
            end = None
            while j < hi:
                tt = ct[j]
                if tt.kind == 'punct' and tt.text == ';':
                    end = tt.end
                    j += 1
                    break
                if tt.kind == 'punct' and tt.text == '{':
                    body_open = tt.pos
                    c = match_close(ct, j)
                    end = ct[c].end
                    j = c + 1
                    # struct X {..}  has no trailing ';'. `const X: T = S { .. };` does.
                    if kw in ('const', 'static', 'type', 'use') :
                        body_open = -1
                        continue
                    if kw == 'macro_rules' and j < hi and ct[j].text == ';':
                        end = ct[j].end
                        j += 1
                    break
                if tt.kind == 'punct' and tt.text in ('(', '['):
                    j = match_close(ct, j) + 1
                    # tuple struct: `struct A(u8);`
                    continue
                j += 1
            if end is None:
                raise ValueError('item without end at %d' % t.pos)
            if kw == 'impl' or kw == 'trait':
                hdr_end = body_open if body_open >= 0 else end
                header = _norm(src[t.pos:hdr_end])
                if kw == 'impl':
                    name = header
            out.append(Item(kw, name, ct[start_i].pos, t.pos, body_open, end, ct[start_i].pos))
            i = j
            continue
        # macro invocation items or anything else: skip one token tree
        if t.kind == 'punct' and t.text in OPEN:
            i = match_close(ct, k) + 1
        else:
            i = k + 1
    return out


class Source:
    def __init__(self, path, text=None):
        self.path = path
        self.text = text if text is not None else open(path, encoding='utf-8').read()
        self.toks = lex(self.text)
        self.ct = code_toks(self.toks)
        self._pos2idx = {t.pos: i for i, t in enumerate(self.ct)}

    def top_items(self):
        return items_in(self.text, self.ct, 0, len(self.ct))

    def children(self, item):
        if item.body_open < 0:
            return []
        lo = self._pos2idx[item.body_open]
        hi = match_close(self.ct, lo)
        return items_in(self.text, self.ct, lo + 1, hi)

    def line_of(self, pos):
        return self.text.count('\n', 0, pos) + 1

    def locate(self, path_segs):
        """path_segs like ['impl Region', 'fn cut_rel'] -> Item.
        A segment is '<kw> <name-or-header>'.  For impl the header is matched after
        normalisation, either exactly or as a prefix ending before ' where'/'{'.
        If several scopes match, the first one that contains the remaining path wins."""
        def match(item, seg):
            kw, _, rest = seg.partition(' ')
            if re.match(r'impl\b', seg):
                if item.kind != 'impl':
                    return False
                want = _norm(seg)
                have = item.name
                if have == want:
                    return True
                if have.startswith(want) and have[len(want):].lstrip().startswith('where'):
                    return True
                return False
            if item.kind != kw:
                return False
            return item.name == rest.strip()

        def rec(cands, segs):
            seg = segs[0]
            hits = [it for it in cands if match(it, seg)]
            if not hits:
                return None
            if len(segs) == 1:
                return hits
            found = []
            for h in hits:
                r = rec(self.children(h), segs[1:])
                if r:
                    found.extend(r)
            return found or None

        r = rec(self.top_items(), path_segs)
        if not r:
            raise AnchorLost('%s: item not found: %s' % (self.path, ' >> '.join(path_segs)))
        return r


def fn_parts(srcobj, item):
    """For an `fn` item return (sig_start, ret_arrow_pos_or_-1, ret_type_span, where_pos_or_-1, body_open).
    Offsets are absolute in srcobj.text."""
    ct = srcobj.ct
    i = srcobj._pos2idx[item.head]
    assert ct[i].text == 'fn'
    j = i + 2
    if ct[j].text == '<':
        j = _skip_angle(ct, j)
    assert ct[j].text == '(', 'fn without ( at %d' % ct[j].pos
    close = match_close(ct, j)
    params = (ct[j].pos, ct[close].end)
    j = close + 1
    arrow = -1
    ret = None
    where = -1
    end_idx = srcobj._pos2idx[item.body_open] if item.body_open >= 0 else None
    if end_idx is None:
        # declaration without body (trait method)
        end_pos = item.end - 1
        end_idx = max(k for k, t in enumerate(ct) if t.pos < item.end)
    if ct[j].text == '-' and ct[j + 1].text == '>':
        arrow = ct[j].pos
        k = j + 2
        # return type extends to 'where' at depth 0 or body_open
        depth = 0
        r0 = ct[k].pos
        while k < end_idx:
            t = ct[k]
            if t.kind == 'ident' and t.text == 'where' and depth == 0:
                break
            if t.kind == 'punct' and t.text in OPEN:
                k = match_close(ct, k) + 1
                continue
            if t.kind == 'punct' and t.text == '<':
                k = _skip_angle(ct, k)
                continue
            k += 1
        ret = (r0, ct[k - 1].end)
        j = k
    if j < len(ct) and ct[j].kind == 'ident' and ct[j].text == 'where':
        where = ct[j].pos
    return dict(params=params, arrow=arrow, ret=ret, where=where, body_open=item.body_open)


def loops_in(srcobj, item):
    """Return list of (kw_pos, kw, body_open_pos, in_pos_or_-1) for the loops of a fn item, in source order."""
    ct = srcobj.ct
    lo = srcobj._pos2idx[item.body_open]
    hi = match_close(ct, lo)
    out = []
    k = lo + 1
    while k < hi:
        t = ct[k]
        if t.kind == 'ident' and t.text in ('while', 'for', 'loop'):
            # `for` in `for<'a>` HRTB / impl-for cannot occur inside fn bodies at statement level except HRTB
            if t.text == 'for' and ct[k + 1].text == '<':
                k += 1
                continue
            j = k + 1
            in_pos = -1
            while j < hi:
                tt = ct[j]
                if tt.kind == 'ident' and tt.text == 'in' and in_pos < 0 and t.text == 'for':
                    in_pos = tt.pos
                if tt.kind == 'punct' and tt.text == '{':
                    break
                if tt.kind == 'punct' and tt.text in ('(', '['):
                    j = match_close(ct, j) + 1
                    continue
                j += 1
            out.append((t.pos, t.text, ct[j].pos, in_pos))
        k += 1
    return out
