#!/bin/bash
# usage: tools/seedtest_copy.sh <prop> <patch.diff> <logfile> [extra vchk args]   -- runs the check against a patched COPY of /repo (never touches /repo)
prop=$1; patch=$2; log=$3; shift 3
d=$(mktemp -d /tmp/mrepo_XXXX)
rsync -a --exclude target --exclude .git /repo/ $d/
(cd $d && patch -p1 -s < "$patch") || { echo "patch does not apply" > $log; rm -rf $d; exit 9; }
cd /verif && VERIF_REPO=$d ./vchk "$prop" "$@" > $log 2>&1
echo "seedtest rc=$?" >> $log
rm -rf $d
