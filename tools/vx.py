#!/usr/bin/env python3
"""vx — build one Verus unit from a template (.vx) and /repo's *current* source.

Template language (everything else in the template is copied verbatim):

  //@unit <name>                       unit header (optional)
  //@props C01 C14 ...                 properties this unit serves
  //@extract <file> >> <seg> >> <seg>  cut the item verbatim from /repo/<file>
  //@| oblig C03.a                     obligation id(s) the extracted function carries
  //@| ret <name>                      name the return value:  -> T   becomes  -> (name: T)
  //@| spec                            following //@: lines are inserted after the signature
  //@| loop <k> [label <it>]           //@: lines inserted in front of the body of the k-th loop
  //@| desugar-for <k> <it>            R10 on the k-th loop; //@| preloop <k> / loopbody <k>: lines before the loop / at the top of its body
  //@| before "<literal>" [#n]         //@: lines inserted before the n-th occurrence of the literal
  //@| after "<literal>" [#n]          //@: lines inserted after it
  //@| external                        R3: body dropped, #[verifier::external_body] added (contract = assumption)
  //@| keep-attrs                      do not apply R1 to this item
  //@| sub "<old>" => "<new>" because <reason>   listed manual rewrite (reported in evidence; avoid)
  //@| rename <new>                    rename the fn (for extracting one generic fn at two instances)
  //@: <text>                          content line of the preceding section
  //@neg <id> [#k]: <text>             negative control <id>: in variant <id> this text REPLACES the
                                       previous k (default 1) content/template lines; ignored in the normal build

Rewrites applied by the extractor are a closed list (reported per unit):
  R1 attributes dropped: #[inline..], #[cfg(..)] / #[cfg_attr(..)] / #[derive(..)] / #[repr(..)] /
     #[allow(..)] / #[must_use] / #[doc..]  (doc comments in front of the item are not part of the cut)
  R3 body of an item marked `external`
  R6 argument-position `impl Trait` -> named type parameter
  R7 return value naming `-> T` -> `-> (r: T)` (Verus syntax for naming the result; no semantic change)
  R13 a parameter spelled `_name` in the source and `name` in the contract is renamed back to `name` (alpha-renaming of a binder)
  R10 `for PAT in EXPR { .. }` -> `let mut it = IntoIterator::into_iter(EXPR); loop { let PAT = match it.next() { Some(v) => v, None => break }; .. }`
      (the language reference's definition of `for`; used only where the body has `continue`, which Verus rejects in for-loops)
  R9 `const` -> `exec const` with an `ensures` (Verus mode annotation) when the template gives a spec for a const
  R8 restricted visibility `pub(crate)` / `pub(super)` -> `pub` (the unit is a single-file crate)
  R11 function slice (`slice` directive): the tail of a fn body verified as a fn of its own; the dropped prefix is reported
  R12 loop annotations dropped when the function under contract has no loop left at all (a loop-free body needs none)
Macros (format!, format_error!, debug_assert!, ...) are NOT rewritten: the unit prelude defines
shim macro_rules! for them (R4/R5 of DESIGN.md are realised as macro shims).
"""
import json
import os
import re
import sys

sys.path.insert(0, os.path.dirname(os.path.abspath(__file__)))
import rsitems
from rsitems import AnchorLost


def _find_ws(text, lit, start, end):
    """position and length of `lit` in text[start:end]: exact match first; a multi-line anchor that is not found verbatim is looked for
    modulo runs of white space (Rust does not care about them; a re-indented block must not lose its anchor)"""
    pos = text.find(lit, start, end)
    if pos >= 0:
        return pos, len(lit)
    if '\n' not in lit:
        return -1, 0
    parts = [re.escape(x) for x in lit.split()]
    if not parts:
        return -1, 0
    rx = re.compile(r'\s+'.join(parts))
    m = rx.search(text, start, end)
    if not m:
        return -1, 0
    return m.start(), m.end() - m.start()

REPO = os.environ.get('VERIF_REPO', '/repo')

R1_ATTR = re.compile(r'^(inline|cfg|cfg_attr|derive|repr|allow|must_use|doc|deprecated|track_caller)\b')


class TemplateError(Exception):
    pass


_src_cache = {}


def get_source(rel):
    p = os.path.join(REPO, rel)
    if p not in _src_cache:
        if not os.path.exists(p):
            raise AnchorLost('source file missing: %s' % rel)
        _src_cache[p] = rsitems.Source(p)
    return _src_cache[p]


def parse_template(text, base_dir='.'):
    """-> list of nodes: ('text', line, negs) | ('extract', dict)"""
    lines = []
    for line in text.split('\n'):
        if line.strip().startswith('//@include '):
            inc = os.path.join(base_dir, line.strip().split(None, 1)[1])
            inc_text = open(inc, encoding='utf-8').read()
            if '//@include ' in inc_text:
                raise TemplateError('nested include in %s' % inc)
            lines.extend(inc_text.rstrip('\n').split('\n'))
        else:
            lines.append(line)
    nodes = []
    i = 0
    cur = None       # current extract dict
    sec = None       # current section (list of content lines)
    meta = {'unit': None, 'props': [], 'obligs_decl': []}
    last_line_holder = None   # (list, index) of the last content line for //@neg
    holders = []

    def close():
        nonlocal cur, sec
        if cur is not None:
            nodes.append(('extract', cur))
        cur, sec = None, None

    for ln, line in enumerate(lines, 1):
        s = line.strip()
        if s.startswith('//@unit '):
            meta['unit'] = s.split(None, 1)[1].strip()
            continue
        if s.startswith('//@props '):
            meta['props'] = s.split()[1:]
            continue
        if s.startswith('//@cfg '):
            # read by vchk: an extra `--cfg` for the verifier (a crate feature whose cfg-gated arms inside an extracted body are wanted)
            meta.setdefault('cfg', []).append(s.split(None, 1)[1].strip())
            continue
        if s.startswith('//@tier '):
            # read by vchk (a `thorough` unit is skipped by the quick tier)
            meta['tier'] = s.split()[1]
            continue
        if s.startswith('//@oblig '):
            # free-standing obligation declaration for template-only items (lemmas):  //@oblig C03.d fn_name kind
            meta['obligs_decl'].append(s.split()[1:])
            continue
        if s.startswith('//@extract '):
            close()
            spec = s[len('//@extract '):]
            segs = [x.strip() for x in spec.split(' >> ')]
            cur = dict(file=segs[0], path=segs[1:], obligs=[], ret=None, spec=[], loops={}, inserts=[], desugar={}, loopbody={}, preloop={},
                       external=False, keep_attrs=False, subs=[], rename=None, attr=None, slice=None, no_r6=False, tline=ln)
            sec = None
            continue
        if s.startswith('//@|'):
            if cur is None:
                raise TemplateError('line %d: //@| outside extract' % ln)
            d = s[4:].strip()
            kw = d.split(None, 1)[0]
            rest = d[len(kw):].strip()
            if kw == 'oblig':
                cur['obligs'] += rest.split()
                sec = None
            elif kw == 'ret':
                cur['ret'] = rest
                sec = None
            elif kw == 'spec':
                sec = cur['spec']
            elif kw == 'loop':
                m = re.match(r'(\d+)(?:\s+label\s+(\w+))?$', rest)
                if not m:
                    raise TemplateError('line %d: bad loop directive' % ln)
                sec = []
                cur['loops'][int(m.group(1))] = dict(label=m.group(2), lines=sec)
            elif kw == 'desugar-for':
                m = re.match(r'(\d+)\s+(\w+)(\s+plain)?$', rest)
                if not m:
                    raise TemplateError('line %d: bad desugar-for directive' % ln)
                # `plain`: the loop expression already is the iterator (a type with an inherent `next`): no IntoIterator::into_iter call
                cur['desugar'][int(m.group(1))] = m.group(2) + ('!' if m.group(3) else '')
                sec = None
            elif kw in ('loopbody', 'preloop'):
                m = re.match(r'(\d+)$', rest)
                if not m:
                    raise TemplateError('line %d: bad %s directive' % (ln, kw))
                sec = []
                cur[kw][int(m.group(1))] = sec
            elif kw in ('before', 'after'):
                m = re.match(r'"((?:[^"\\]|\\.)*)"(?:\s+#(\d+))?$', rest)
                if not m:
                    raise TemplateError('line %d: bad %s directive' % (ln, kw))
                sec = []
                cur['inserts'].append(dict(where=kw, lit=m.group(1).replace('\\"', '"').replace('\\n', '\n'), nth=int(m.group(2) or 1), lines=sec))
            elif kw == 'external':
                cur['external'] = True
                sec = None
            elif kw == 'slice':
                # R11: verify the tail of a fn body as a fn of its own:  //@| slice "first statement of the tail"  followed by //@: signature lines
                m = re.match(r'"((?:[^"\\]|\\.)*)"$', rest)
                if not m:
                    raise TemplateError('line %d: bad slice directive' % ln)
                sec = []
                cur['slice'] = dict(lit=m.group(1).replace('\\"', '"'), lines=sec)
            elif kw == 'slice-until':
                # R11 (bounded form): the slice stops in front of this statement; the //@: lines that follow are the closing expression of the
                # sliced fn (what it hands back of the locals it computed).  Everything from that statement on is dropped and reported.
                m = re.match(r'"((?:[^"\\]|\\.)*)"$', rest)
                if not m or not cur.get('slice'):
                    raise TemplateError('line %d: bad slice-until directive (needs a preceding slice)' % ln)
                sec = []
                cur['slice']['until'] = dict(lit=m.group(1).replace('\\"', '"').replace('\\n', '\n'), lines=sec)
            elif kw == 'attr':
                # verifier attribute put in front of the extracted fn (e.g. #[verifier::rlimit(200)]); never changes the fn text
                cur['attr'] = rest
                sec = None
            elif kw == 'keep-attrs':
                cur['keep_attrs'] = True
                sec = None
            elif kw == 'rename':
                cur['rename'] = rest
                sec = None
            elif kw == 'no-r6':
                # the template rewrites the argument-position `impl Trait` itself (manual rewrite with its reason): skip rule R6
                cur['no_r6'] = True
                sec = None
            elif kw == 'subany':
                # like `suball`, but an item where the text does not occur is left as it is (path spellings such as `super::X::` that a
                # changed function may start to use: the rewrite must not turn their absence into a lost anchor)
                m = re.match(r'"((?:[^"\\]|\\.)*)"\s*=>\s*"((?:[^"\\]|\\.)*)"\s+because\s+(.+)$', rest)
                if not m:
                    raise TemplateError('line %d: bad subany directive' % ln)
                cur['subs'].append((m.group(1).replace('\\"', '"').replace('\\n', '\n'), m.group(2).replace('\\"', '"').replace('\\n', '\n'), m.group(3), 'any'))
                sec = None
            elif kw == 'suball':
                # like `sub`, for a text that occurs several times in the item (copy-pasted branches): every occurrence is rewritten
                m = re.match(r'"((?:[^"\\]|\\.)*)"\s*=>\s*"((?:[^"\\]|\\.)*)"\s+because\s+(.+)$', rest)
                if not m:
                    raise TemplateError('line %d: bad suball directive' % ln)
                cur['subs'].append((m.group(1).replace('\\"', '"').replace('\\n', '\n'), m.group(2).replace('\\"', '"').replace('\\n', '\n'), m.group(3), True))
                sec = None
            elif kw == 'sub':
                m = re.match(r'"((?:[^"\\]|\\.)*)"\s*=>\s*"((?:[^"\\]|\\.)*)"\s+because\s+(.+)$', rest)
                if not m:
                    raise TemplateError('line %d: bad sub directive' % ln)
                cur['subs'].append((m.group(1).replace('\\"', '"').replace('\\n', '\n'), m.group(2).replace('\\"', '"').replace('\\n', '\n'), m.group(3)))
                sec = None
            else:
                raise TemplateError('line %d: unknown directive %s' % (ln, kw))
            continue
        if s.startswith('//@:'):
            if sec is None:
                raise TemplateError('line %d: content line without section' % ln)
            sec.append([line.split('//@:', 1)[1], {}])
            last_line_holder = sec[-1]
            holders.append(sec[-1])
            continue
        m = re.match(r'//@neg\s+(\w+)(?:\s+#(\d+))?:(.*)$', s)
        if m:
            if last_line_holder is None:
                raise TemplateError('line %d: //@neg without a preceding line' % ln)
            k = int(m.group(2) or 1)
            if k > len(holders):
                raise TemplateError('line %d: //@neg #%d reaches before the section start' % (ln, k))
            for h in holders[-k:-1]:
                h[1][m.group(1)] = ''
            holders[-1][1][m.group(1)] = m.group(3)
            continue
        if s.startswith('//@'):
            raise TemplateError('line %d: unknown directive: %s' % (ln, s))
        close()
        node = [line, {}]
        nodes.append(('text', node))
        last_line_holder = node
        holders.append(node)
    close()
    return meta, nodes


def _pick(line_holder, variant):
    text, negs = line_holder
    if variant and variant in negs:
        return negs[variant]
    return text


def neg_ids(nodes):
    ids = []

    def scan(h):
        for k in h[1]:
            if k not in ids:
                ids.append(k)
    for kind, n in nodes:
        if kind == 'text':
            scan(n)
        else:
            for h in n['spec']:
                scan(h)
            for l in n['loops'].values():
                for h in l['lines']:
                    scan(h)
            for ins in n['inserts']:
                for h in ins['lines']:
                    scan(h)
            for d in (n['loopbody'], n['preloop']):
                for l in d.values():
                    for h in l:
                        scan(h)
    return ids



# ---- closures without a contract (the installed Verus does not infer closure postconditions) ----
_CLOSURE_RE = re.compile(r'(?:(?<=[(,={;])|(?<=\breturn)|(?<=\bmove)|(?<=&))\s*(?:move\s+)?\|([^|\n]*)\|(?!\|)')


def _strip_comments_strings(t):
    t = re.sub(r'//[^\n]*', lambda m: ' ' * len(m.group(0)), t)
    t = re.sub(r'"(?:[^"\\\n]|\\.)*"', lambda m: '"' + ' ' * (len(m.group(0)) - 2) + '"', t)
    return t


def _callee_of(t, pos):
    """name of the call whose argument list contains position `pos` (walk back to the unmatched '('), or None"""
    depth = 0
    i = pos - 1
    while i >= 0:
        c = t[i]
        if c in ')]}':
            depth += 1
        elif c in '([{':
            if depth == 0:
                if c != '(':
                    return None
                m = re.search(r'(\w+)\s*(?:::<[^()]*>)?\s*$', t[:i])
                return m.group(1) if m else None
            depth -= 1
        i -= 1
    return None


_LOOP_RE = re.compile(r'\b(?:for\s+[^;{}]*?\bin\b|while\b|loop\b)')


def bare_loops(fn_text):
    """Loops of an extracted function that carry no invariant / decreases / ensures clause.  Verus proves nothing THROUGH such a loop (everything
    the loop touches is havocked): a failed obligation in a function that has more of them than on the unchanged tree is a tool limit."""
    t = _strip_comments_strings(fn_text)
    n = 0
    for m in _LOOP_RE.finditer(t):
        depth, j = 0, m.end()
        while j < len(t):
            c = t[j]
            if c in '([':
                depth += 1
            elif c in ')]':
                depth -= 1
            elif c == '{' and depth <= 0:
                break
            elif c == ';' and depth <= 0:
                j = -1
                break
            j += 1
        if j < 0 or j >= len(t):
            continue
        head = t[m.start():j]
        if not re.search(r'\b(invariant|invariant_except_break|decreases|ensures)\b', head):
            n += 1
    return n


_BITOP_RE = re.compile(r'(?<=[\w)\]])\s*(?:>>|<<|&(?!&)|\|(?!\|)|\^)\s*(?=[\w(!-])')
_DIVOP_RE = re.compile(r'(?<=[\w)\]])\s*(?:/|%)\s*(?=[\w(])')


def bit_div_ops(fn_text):
    """(number of binary bit-level operators, number of division / remainder operators) of an extracted function.  Z3 under Verus does not
    relate the two forms unprompted (`x & 0xFFF` vs `x % 0x1000`, `x >> 12` vs `x / 0x1000`): when a function moves operators from one class
    to the other, a failed obligation there is a tool limit."""
    t = _strip_comments_strings(fn_text)
    t = re.sub(r'&&', '  ', t)
    return [len(_BITOP_RE.findall(t)), len(_DIVOP_RE.findall(t))]


def opaque_closures(fn_text, unit_text):
    """Closures of an extracted function that carry no contract AND are handed to something whose contract may speak about what they return:
    every callee that is not a shim defined in the unit, and every shim of the unit whose contract mentions the closure's requires()/ensures().
    A failed obligation in a function that has MORE of these than on the unchanged tree is a tool limit (undecided), not a refutation."""
    t = _strip_comments_strings(fn_text)
    n = 0
    for m in _CLOSURE_RE.finditer(t):
        after = t[m.end():m.end() + 40]
        if re.match(r'\s*->\s*\(\s*\w+\s*:', after):
            continue      # `|x| -> (r: T) requires .. ensures .. { .. }`: under contract
        callee = _callee_of(t, m.start())
        if callee:
            defs = list(re.finditer(r'\bfn\s+%s\s*[<(]' % re.escape(callee), unit_text))
            if defs:
                silent = True     # every shim of that name says nothing about what the closure returns
                for dm in defs:
                    body = unit_text[dm.start():dm.start() + 1500]
                    end = body.find('unimplemented!()')
                    contract = body[:end] if end >= 0 else body[:600]
                    if '.ensures(' in contract or '.requires(' in contract:
                        silent = False
                if silent:
                    continue
        n += 1
    return n


def extract(node, variant, report):
    src = get_source(node['file'])
    hits = src.locate(node['path'])
    if len(hits) != 1:
        raise AnchorLost('%s: %d items match %s' % (node['file'], len(hits), ' >> '.join(node['path'])))
    it = hits[0]
    text = src.text
    edits = []   # (start, end, replacement, tag)
    rules = {}

    def rule(r):
        rules[r] = rules.get(r, 0) + 1

    # R1 attributes in front of the item
    if not node['keep_attrs']:
        ct = src.ct
        i = src._pos2idx[it.start]
        while ct[i].text == '#':
            j = i + 1
            close = rsitems.match_close(ct, j)
            inner = text[ct[j].end:ct[close].pos].strip()
            if R1_ATTR.match(inner):
                edits.append((ct[i].pos, ct[close].end, '', 'R1'))
                rule('R1')
            i = close + 1
    # R8 restricted visibility -> pub (single-file unit: no semantic effect)
    ct = src.ct
    i0 = src._pos2idx[it.start]
    i1 = max(i for i, t in enumerate(ct) if t.pos < it.end)
    k = i0
    while k < i1:
        t = ct[k]
        if t.kind == 'ident' and t.text == 'pub' and ct[k + 1].text == '(' and ct[k + 2].text in ('crate', 'super', 'in', 'self'):
            close = rsitems.match_close(ct, k + 1)
            edits.append((ct[k + 1].pos, ct[close].end, '', 'R8'))
            rule('R8')
            k = close + 1
            continue
        k += 1
    # R8 (cont.) private type-level items -> pub (Verus: a non-visible datatype cannot be used in `pub open spec fn`)
    if it.kind in ('struct', 'enum', 'const', 'type', 'trait'):
        kwi = src._pos2idx[it.head]
        prev = ct[kwi - 1] if kwi > 0 else None
        has_vis = False
        k2 = kwi - 1
        while k2 >= i0:
            if ct[k2].kind == 'ident' and ct[k2].text == 'pub':
                has_vis = True
            k2 -= 1
        if not has_vis:
            edits.append((it.head, it.head, 'pub ', 'R8'))
            rule('R8')
    # R8 (cont.) private struct fields -> pub (Verus treats a datatype with a private field as opaque in specs)
    if it.kind == 'struct':
        # find the field list: first '{' or '(' after the name/generics
        k = src._pos2idx[it.head] + 2
        if ct[k].text == '<':
            k = rsitems._skip_angle(ct, k)
        while k < i1 and ct[k].text not in ('{', '(', ';'):
            k += 1
        if k < i1 and ct[k].text in ('{', '('):
            tuple_like = ct[k].text == '('
            close = rsitems.match_close(ct, k)
            j = k + 1
            at_start = True
            while j < close:
                t = ct[j]
                if at_start:
                    while ct[j].text == '#':
                        j = rsitems.match_close(ct, j + 1) + 1
                    t = ct[j]
                    if j < close and not (t.kind == 'ident' and t.text == 'pub'):
                        edits.append((t.pos, t.pos, 'pub ', 'R8'))
                        rule('R8')
                    at_start = False
                if t.kind == 'punct' and t.text == '<':
                    j = rsitems._skip_angle(ct, j)
                    continue
                if t.kind == 'punct' and t.text in rsitems.OPEN:
                    j = rsitems.match_close(ct, j) + 1
                    continue
                if t.kind == 'punct' and t.text == ',':
                    at_start = True
                j += 1
    if it.kind == 'fn':
        parts = rsitems.fn_parts(src, it)
        # R6 impl Trait in argument position
        ct = src.ct
        p0, p1 = parts['params']
        gens = []
        k = src._pos2idx[p0]
        kend = max(i for i, t in enumerate(ct) if t.pos < p1)
        idx = k + 1
        depth = 0
        while idx < kend:
            t = ct[idx]
            if node.get('no_r6'):
                break
            if t.kind == 'ident' and t.text == 'impl':
                # type extends to ',' or ')' at depth 0
                j = idx + 1
                while j < kend:
                    tt = ct[j]
                    if tt.kind == 'punct' and tt.text == '<':
                        j = rsitems._skip_angle(ct, j)
                        continue
                    if tt.kind == 'punct' and tt.text in rsitems.OPEN:
                        j = rsitems.match_close(ct, j) + 1
                        continue
                    if tt.kind == 'punct' and tt.text == ',':
                        break
                    j += 1
                bound = text[ct[idx + 1].pos:ct[j - 1].end]
                name = 'P' if not gens else 'P%d' % (len(gens) + 1)
                gens.append('%s: %s' % (name, bound))
                edits.append((t.pos, ct[j - 1].end, name, 'R6'))
                rule('R6')
                idx = j
                continue
            idx += 1
        if gens:
            fn_i = src._pos2idx[it.head]
            after_name = ct[fn_i + 1].end
            if ct[fn_i + 2].text == '<':
                # existing generics: append inside
                close = rsitems._skip_angle(ct, fn_i + 2) - 1
                prev = ct[close - 1].text
                sep = '' if prev == ',' else ', '
                edits.append((ct[close].pos, ct[close].pos, sep + ', '.join(gens), 'R6'))
            else:
                edits.append((after_name, after_name, '<' + ', '.join(gens) + '>', 'R6'))
        if node['rename']:
            fn_i = src._pos2idx[it.head]
            nm = src.ct[fn_i + 1]
            edits.append((nm.pos, nm.end, node['rename'], 'rename'))
        if node['ret']:
            if parts['ret'] is None:
                raise TemplateError('ret on fn without return type: %s' % node['path'])
            r0, r1 = parts['ret']
            edits.append((r0, r0, '(%s: ' % node['ret'], 'R7'))
            edits.append((r1, r1, ')', 'R7'))
            rule('R7')
        spec_lines = [_pick(h, variant) for h in node['spec']]
        if spec_lines:
            pos = it.body_open if it.body_open >= 0 else it.end - 1
            edits.append((pos, pos, '\n' + '\n'.join(spec_lines) + '\n', 'spec'))
        if node['loops'] or node['desugar'] or node['loopbody'] or node['preloop']:
            loops = rsitems.loops_in(src, it)
            ks = set(node['loops']) | set(node['desugar']) | set(node['loopbody']) | set(node['preloop'])
            if not loops:
                # R12: the function has NO loop left (e.g. `while c {..}` became `if c {..}`): loop invariants have nothing to attach to and
                # nothing needs them -- a loop-free body is decided by its contract alone, so the annotations are dropped (counted) instead
                # of declaring the anchor lost.  A function that still has loops but fewer than annotated stays ANCHOR-LOST (undecided).
                ks = set()
                rule('R12')
            for k in sorted(ks):
                if k > len(loops):
                    raise AnchorLost('%s: loop %d not found in %s' % (node['file'], k, ' >> '.join(node['path'])))
                kw_pos, kw, bopen, in_pos = loops[k - 1]
                l = node['loops'].get(k, dict(label=None, lines=[]))
                inv = '\n'.join(_pick(h, variant) for h in l['lines'])
                pre = '\n'.join(_pick(h, variant) for h in node['preloop'].get(k, []))
                body = '\n'.join(_pick(h, variant) for h in node['loopbody'].get(k, []))
                if k in node['desugar']:
                    # R10: `for PAT in EXPR {` -> `let mut IT = IntoIterator::into_iter(EXPR); loop <inv> { let PAT = match IT.next() { Some(v) => v, None => break };`
                    if kw != 'for' or in_pos < 0:
                        raise TemplateError('desugar-for on a loop that is not `for .. in`')
                    itn = node['desugar'][k]
                    plain = itn.endswith('!')
                    itn = itn.rstrip('!')
                    pat = text[kw_pos + 3:in_pos].strip()
                    expr = text[in_pos + 2:bopen].strip()
                    init = expr if plain else 'IntoIterator::into_iter(%s)' % expr
                    rep = 'let mut %s = %s;\n%s\nloop\n%s\n{ let %s = match %s.next() { Some(v__) => v__, None => break };\n%s\n' % (itn, init, pre, inv, pat, itn, body)
                    edits.append((kw_pos, bopen + 1, rep, 'R10'))
                    rule('R10')
                    continue
                if pre:
                    edits.append((kw_pos, kw_pos, pre + '\n', 'loop'))
                if inv:
                    edits.append((bopen, bopen, '\n' + inv + '\n', 'loop'))
                if body:
                    edits.append((bopen + 1, bopen + 1, '\n' + body + '\n', 'loop'))
                if l['label']:
                    if in_pos < 0:
                        raise TemplateError('label on a loop that is not `for .. in`')
                    edits.append((in_pos + 2, in_pos + 2, ' %s:' % l['label'], 'loop'))
        if node.get('attr'):
            edits.append((it.start, it.start, node['attr'] + ' ', 'attr'))
        if node['external']:
            if it.body_open < 0:
                raise TemplateError('external on bodiless fn')
            edits.append((it.body_open, it.end, '{ unimplemented!() }', 'R3'))
            edits.append((it.start, it.start, '#[verifier::external_body] ', 'R3'))
            rule('R3')
    elif it.kind == 'const' and node['spec']:
        # R9: `const X: T = e;` -> `exec const X: T ensures ... = e;` (Verus mode annotation for consts built by exec calls)
        k = src._pos2idx[it.head]
        edits.append((it.head, it.head, 'exec ', 'R9'))
        rule('R9')
        j = k
        while ct[j].text != '=' or ct[j + 1].text == '=':
            j += 1
        spec_lines = [_pick(h, variant) for h in node['spec']]
        edits.append((ct[j].pos, ct[j].end, '\n' + '\n'.join(spec_lines) + '\n{', 'spec'))
        edits.append((it.end - 1, it.end, '}', 'R9'))
    else:
        if node['spec'] or node['loops'] or node['ret']:
            raise TemplateError('spec/loop/ret on a non-fn item: %s' % node['path'])
    search_from = it.start
    if node.get('slice') and it.kind == 'fn' and it.body_open >= 0:
        # anchors of a sliced fn are looked for in the slice only
        sp = text.find(node['slice']['lit'], it.body_open, it.end)
        if sp >= 0:
            search_from = sp
    for ins in node['inserts']:
        lit = ins['lit']
        pos = search_from - 1
        for _ in range(ins['nth']):
            pos = text.find(lit, pos + 1, it.end)
            if pos < 0:
                raise AnchorLost('%s: anchor %r (#%d) not found in %s' % (node['file'], lit, ins['nth'], ' >> '.join(node['path'])))
        lines = [_pick(h, variant) for h in ins['lines']]
        at = pos if ins['where'] == 'before' else pos + len(lit)
        edits.append((at, at, '\n' + '\n'.join(lines) + '\n', 'insert'))
    for sub in node['subs']:
        old, new, why = sub[0], sub[1], sub[2]
        every = len(sub) > 3 and sub[3]
        pos, plen = _find_ws(text, old, search_from, it.end)
        if pos < 0 and every == 'any':
            continue
        if pos < 0:
            raise AnchorLost('%s: sub anchor %r not found in %s' % (node['file'], old, ' >> '.join(node['path'])))
        if every:
            n_occ = 0
            while pos >= 0:
                edits.append((pos, pos + len(old), new, 'MR'))
                n_occ += 1
                pos = text.find(old, pos + len(old), it.end)
            report['manual_rewrites'].append(dict(item=' >> '.join([node['file']] + node['path']), old=old, new=new, reason=why, occurrences=n_occ))
            continue
        exact = text.startswith(old, pos)
        if (text.find(old, pos + 1, it.end) if exact else _find_ws(text, old, pos + 1, it.end)[0]) >= 0:
            raise TemplateError('sub anchor %r ambiguous in %s' % (old, node['path']))
        edits.append((pos, pos + plen, new, 'MR'))
        report['manual_rewrites'].append(dict(item=' >> '.join([node['file']] + node['path']), old=old, new=new, reason=why))
    if node.get('slice'):
        # R11: the statements of the fn body from the anchor to the end become the body of a fn whose parameters are the locals
        # (and fields of self) live at that point, with the types they have in the source; everything before the anchor is dropped.
        if it.kind != 'fn' or it.body_open < 0:
            raise TemplateError('slice on a non-fn item: %s' % node['path'])
        sl = node['slice']
        apos = text.find(sl['lit'], it.body_open, it.end)
        if apos < 0:
            raise AnchorLost('%s: slice anchor %r not found in %s' % (node['file'], sl['lit'], ' >> '.join(node['path'])))
        if text.find(sl['lit'], apos + 1, it.end) >= 0:
            raise TemplateError('slice anchor %r ambiguous in %s' % (sl['lit'], node['path']))
        sig = '\n'.join(_pick(h, variant) for h in sl['lines'])
        spec_txt = '\n'.join(_pick(h, variant) for h in node['spec'])
        edits = [e for e in edits if e[0] >= apos]
        dropped = 'statements of the fn body before line %d' % src.line_of(apos)
        if sl.get('until'):
            upos = text.find(sl['until']['lit'], apos, it.end)
            if upos < 0:
                raise AnchorLost('%s: slice-until anchor %r not found in %s' % (node['file'], sl['until']['lit'], ' >> '.join(node['path'])))
            # (the FIRST occurrence after the slice start: copy-pasted arms end alike)
            edits = [e for e in edits if e[1] <= upos]
            closing = '\n'.join(_pick(h, variant) for h in sl['until']['lines'])
            edits.append((upos, it.end - 1, closing + '\n', 'R11'))
            dropped += ' and from line %d on' % src.line_of(upos)
        edits.append((it.start, apos, sig + '\n' + spec_txt + '\n{\n', 'R11'))
        rule('R11')
        report.setdefault('slices', []).append(dict(item=' >> '.join([node['file']] + node['path']), from_line=src.line_of(apos), fn_line=src.line_of(it.head),
                                                    dropped=dropped))
    # apply edits
    edits.sort(key=lambda e: (e[0], e[1]))
    out = []
    cur = it.start
    for (a, b, rep, tag) in edits:
        if a < cur:
            raise TemplateError('overlapping edits in %s' % node['path'])
        out.append(text[cur:a])
        out.append(rep)
        cur = b
    out.append(text[cur:it.end])
    res = ''.join(out)
    # R13: a parameter that the source spells with a leading underscore (`_in_memory`: "unused", a lint matter) while the contract names it
    # without (`in_memory`) is renamed back throughout the function -- alpha-renaming of a binder, no semantic change.  Without it a contract
    # about a parameter that a change stops using could not even be stated (the unit would not compile: undecided).
    if it.kind == 'fn' and node['spec']:
        spec_src = '\n'.join(_pick(h, variant) for h in node['spec'])
        m = re.search(r'\bfn\s+\w+\s*(?:<[^{;]*?>)?\s*\(', res)
        if m:
            depth, j = 1, m.end()
            while j < len(res) and depth:
                depth += {'(': 1, ')': -1}.get(res[j], 0)
                j += 1
            params = res[m.end():j - 1]
            names = re.findall(r'(?:^|,)\s*(?:mut\s+)?(\w+)\s*:', params)
            for pn in names:
                if pn.startswith('_') and len(pn) > 1 and pn[1:] not in names and re.search(r'\b%s\b' % re.escape(pn[1:]), spec_src) \
                        and not re.search(r'\b%s\b' % re.escape(pn), spec_src) and not re.search(r'(?<![\w.])%s\b' % re.escape(pn[1:]), res.replace(spec_src, '')):
                    res = re.sub(r'\b%s\b' % re.escape(pn), pn[1:], res)
                    rule('R13')
    report['extracts'].append(dict(
        item=' >> '.join(node['path']), file=node['file'], line=src.line_of(it.head), end_line=src.line_of(it.end),
        obligs=node['obligs'], rules=rules, external=node['external'],
        inserted_lines=sum(len(x) for x in [node['spec']] + [l['lines'] for l in node['loops'].values()] + [i['lines'] for i in node['inserts']]),
        kind=it.kind, name=(node['rename'] or it.name), fn_text=res))
    return res


def build(template_path, variant=None):
    meta, nodes = parse_template(open(template_path, encoding='utf-8').read(), os.path.dirname(os.path.abspath(template_path)))
    report = dict(unit=meta['unit'] or os.path.basename(template_path)[:-3], props=meta['props'], extracts=[],
                  manual_rewrites=[], negs=neg_ids(nodes), obligs_decl=meta['obligs_decl'], linemap=[])
    out_lines = []
    for kind, n in nodes:
        if kind == 'text':
            out_lines.append(_pick(n, variant))
        else:
            txt = extract(n, variant, report)
            first = len(out_lines) + 1
            out_lines.extend(txt.split('\n'))
            report['extracts'][-1]['out_lines'] = [first, len(out_lines)]
    full = '\n'.join(out_lines)
    # shims = the unit text minus the extracted functions (a callee named like an extracted function is NOT a shim)
    for ex in report['extracts']:
        ft = ex.pop('fn_text')
        if ex.get('kind') == 'fn':
            shim_text = full.replace(ft, '')
            ex['opaque_closures'] = opaque_closures(ft, shim_text) + bare_loops(ft)
            ex['bit_div_ops'] = bit_div_ops(ft)
    return full, report


def main():
    import argparse
    ap = argparse.ArgumentParser()
    ap.add_argument('template')
    ap.add_argument('-o', '--out', required=True)
    ap.add_argument('--variant')
    ap.add_argument('--report')
    a = ap.parse_args()
    try:
        text, rep = build(a.template, a.variant)
    except AnchorLost as e:
        print('ANCHOR-LOST: %s' % e, file=sys.stderr)
        sys.exit(2)
    except TemplateError as e:
        print('TEMPLATE-ERROR: %s' % e, file=sys.stderr)
        sys.exit(2)
    open(a.out, 'w').write(text)
    if a.report:
        json.dump(rep, open(a.report, 'w'), indent=1)


if __name__ == '__main__':
    main()
