#!/bin/bash
# usage: tools/mkmut.sh <file relative to /repo> <old text> <new text> <out.diff>  -- a one-replacement patch against /repo (for hand-made property-breaking changes)
d=$(mktemp -d /tmp/mm_XXXX); mkdir -p $d/$(dirname $1); cp /repo/$1 $d/$1
python3 - "$d/$1" "$2" "$3" <<'PY'
import sys
f,a,b=sys.argv[1:4]
s=open(f).read(); assert s.count(a)==1, 'occurrences: %d' % s.count(a)
open(f,'w').write(s.replace(a,b))
PY
(cd $d && diff -u /repo/$1 $1 | sed "s|^--- /repo/|--- a/|; s|^+++ |+++ b/|") > $4; rm -rf $d
