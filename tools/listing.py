#!/usr/bin/env python3
"""Listing rule, mechanically: a unit that PROVES function F (//@extract .. >> fn F) is listed under every property of every unit that only
ASSUMES F (a literal shim `fn F` in an `impl` of the same type).  Usage: tools/listing.py [--apply]; prints what is missing, exit 1 if any."""
import re, glob, os, sys, collections
def load():
    units = {}
    for f in sorted(glob.glob('/verif/contracts/*.vx')):
        u = os.path.basename(f)[:-3]; txt = open(f).read()
        props = re.search(r'^//@props (.*)$', txt, re.M).group(1).split()
        ext = set()
        for m in re.finditer(r'^//@extract (\S+) >> (.*)$', txt, re.M):
            parts = [p.strip() for p in m.group(2).split('>>')]
            if len(parts) >= 2 and parts[-1].startswith('fn '):
                t = parts[-2]
                for _ in range(3): t = re.sub(r'<[^<>]*>', '', t)
                t = t.split(' for ')[-1].replace('impl', '').strip().split(' ')[0].split('::')[-1]
                ext.add((t, parts[-1][3:].strip()))
        shims = set(); cur = None
        for line in txt.split('\n'):
            if line.startswith('//@'): continue
            m = re.match(r'impl(?:<[^>]*>)?\s+(?:[\w:<>,\' ]+\s+for\s+)?([A-Za-z_]\w*)', line)
            if m: cur = m.group(1)
            if cur:
                for fm in re.finditer(r'\bfn (\w+)\s*[(<]', line): shims.add((cur, fm.group(1)))
        units[u] = dict(file=f, props=props, ext=ext, shims=shims)
    return units
def edges():
    e = []
    try:
        for line in open('/verif/contracts/listing_edges.txt'):
            line = line.split('#')[0].strip()
            if '<-' in line:
                a, ps = line.split('<-'); e.append((a.strip(), ps.split()))
    except FileNotFoundError:
        pass
    return e
def missing(units):
    out = collections.defaultdict(dict)
    for a, provers in edges():
        for x in provers:
            if a in units and x in units:
                for p in units[a]['props']:
                    if p not in units[x]['props']: out[x].setdefault(p, '%s assumes what %s proves (listing_edges.txt)' % (a, x))
    for x, xv in units.items():
        for u, uv in units.items():
            if u == x: continue
            common = xv['ext'] & uv['shims']
            if common:
                for p in uv['props']:
                    if p not in xv['props']: out[x].setdefault(p, '%s assumes %s::%s' % (u, *sorted(common)[0]))
    return out
apply = '--apply' in sys.argv
rounds = 0
while True:
    units = load(); miss = missing(units)
    if not miss: break
    for x in sorted(miss):
        print(x, '+', ' '.join('%s (%s)' % (p, why) for p, why in sorted(miss[x].items())))
    if not apply: sys.exit(1)
    for x, ps in miss.items():
        f = units[x]['file']; txt = open(f).read()
        new = units[x]['props'] + sorted(ps)
        txt = re.sub(r'^//@props .*$', '//@props ' + ' '.join(new), txt, count=1, flags=re.M)
        open(f, 'w').write(txt)
    rounds += 1
    if rounds > 10: break
print('listing closed' + (' after %d round(s)' % rounds if rounds else ''))
