#!/usr/bin/env python3
"""save a confirmed seeded mutation under /verif/seeded/<id>/  (patch.diff, demo.*, notes.txt, meta.json)"""
import json, os, shutil, sys
sid, wt, n, prop, needs = sys.argv[1:6]
src = os.path.join(wt, 'mutations', n)
dst = os.path.join('/verif/seeded', sid)
os.makedirs(dst, exist_ok=True)
for f in os.listdir(src):
    if os.path.isfile(os.path.join(src, f)) and os.path.getsize(os.path.join(src, f)) < 200000:
        shutil.copy(os.path.join(src, f), os.path.join(dst, f))
meta = dict(id=sid, property=prop, needs_to_manifest=needs,
            origin='independent sub-agent given only the property text and a scratch worktree',
            confirmed=dict(how='tools/confirm_seed.sh %s %s' % (wt, n), demo_without_patch='pass', suite_with_patch='ok (existing tests all pass)', demo_with_patch='fail'),
            detected_by=None)
mp = os.path.join(dst, 'meta.json')
if os.path.exists(mp):
    old = json.load(open(mp)); meta['detected_by'] = old.get('detected_by')
json.dump(meta, open(mp, 'w'), indent=1)
print('saved', dst)
