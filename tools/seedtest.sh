#!/bin/bash
# usage: tools/seedtest.sh <prop> <patch.diff> [extra vchk args]
# applies the patch to /repo, runs the property's check, and always reverts.
set -u
prop=$1; patch=$2; shift 2
cd /repo || exit 9
if ! git diff --quiet; then echo "/repo not clean"; exit 9; fi
git apply "$patch" || { echo "patch does not apply"; exit 9; }
cd /verif && VERIF_SCRATCH_EVIDENCE=1 ./vchk "$prop" "$@"; rc=$?
git -C /repo checkout -- . 
echo "seedtest rc=$rc"
exit $rc
