#!/usr/bin/env python3
"""Generate /verif/MANIFEST.json from claims.json (single source of truth for claims)."""
import json, os
HERE = os.path.dirname(os.path.dirname(os.path.abspath(__file__)))
claims = json.load(open(os.path.join(HERE, 'claims.json')))
checks, na = [], []
for pid in sorted(claims):
    c = claims[pid]
    if not c.get('claimed'):
        na.append(dict(property_id=pid, reason=c['reason']))
        continue
    checks.append(dict(
        property_id=pid,
        quick_cmd='./vchk %s --tier quick' % pid,
        thorough_cmd='./vchk %s --tier thorough' % pid,
        evidence_file='/verif/evidence/%s.json' % pid,
        replay_cmd_template='./vchk --replay {path}',
        engine='vchk',
        level_claimed=dict(category=c.get('level', 'proof'), text=c['text'], design_ref=c.get('design_ref', 'DESIGN.md §4 ' + pid)),
        level_note=c['note'],
        technique=c.get('technique', 'contract-based deductive verification (Verus on mechanically extracted functions + Kani function contracts in place)'),
    ))
m = dict(
    version=1,
    setup_cmd='./setup.sh',
    hooks=dict(guard='kani', enable='none needed in /repo: contracts and harnesses are injected as #[cfg_attr(kani, ...)] / #[cfg(kani)] into a scratch copy of the working tree on every run (cargo kani sets cfg(kani)); Verus units are generated from the working tree by tools/vx.py',
               baseline_off_cmd='cd /repo && cargo test --workspace --no-fail-fast --offline', source_commits=[], add_only=True),
    engines=[
        dict(name='vchk', path='/verif/vchk', serves_properties=[c['property_id'] for c in checks],
             kind_free_text='driver: generates Verus units from /repo (tools/vx.py), injects Kani contracts into a scratch copy, runs both, attributes failures to named obligations, writes evidence'),
    ],
    checks=checks,
    not_applicable=na,
    notes='Technique family: contract-based deductive verification of the real code. See DESIGN.md. known findings: known_findings.txt',
)
json.dump(m, open(os.path.join(HERE, 'MANIFEST.json'), 'w'), indent=1)
print('MANIFEST.json: %d checks, %d not_applicable' % (len(checks), len(na)))
