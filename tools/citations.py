#!/usr/bin/env python3
"""Every Kani harness or harness file cited by name (k_...) in contracts/, kani/ comments, DESIGN.md, claims.json must exist.
A cited name may be a prefix ending in '_' or '*' (a family of macro-generated harnesses).  Exit 1 and list the names that match nothing."""
import re, glob, os, sys
root = sys.argv[1] if len(sys.argv) > 1 else '/verif'
defined = set()
for f in glob.glob(root + '/kani/*.rs'):
    defined.add(os.path.basename(f)[:-3])
    t = open(f).read()
    defined |= set(re.findall(r'\bfn (k_[a-z0-9_]+)', t))
    defined |= set(re.findall(r'[(,]\s*(k_[a-z0-9_]+)\s*[,)]', t))
    defined |= set(re.findall(r'\(\$?(k_[a-z0-9_]+)', t))
cited = {}
files = glob.glob(root + '/contracts/*.vx') + glob.glob(root + '/contracts/inc/*.vxi') + [root + '/DESIGN.md', root + '/claims.json']
for f in files:
    for ln, line in enumerate(open(f), 1):
        for m in re.finditer(r'(?<![A-Za-z0-9_])(k_[a-z0-9_]*[a-z0-9_])', line):
            cited.setdefault(m.group(1), '%s:%d' % (os.path.relpath(f, root), ln))
bad = []
for name, where in sorted(cited.items()):
    n = name.rstrip('_')
    if name in defined or any(d.startswith(n) for d in defined):
        continue
    bad.append((name, where))
ok_dropped = {'k_c02_properties_finalize'}   # cited as a harness that was tried and DROPPED
bad = [b for b in bad if b[0] not in ok_dropped]
for name, where in bad:
    print('cited but not found: %s (%s)' % (name, where))
print('%d harness names cited, %d not found' % (len(cited), len(bad)))
sys.exit(1 if bad else 0)
