#!/bin/bash
cd "$(dirname "$0")/.."
for p in "$@"; do
  echo "=== $p $(date +%T)"; ./vchk $p 2>&1 | tail -n 4 | cut -c1-400; echo "rc=${PIPESTATUS[0]}"
done
echo ALLDONE $(date +%T)
