#!/bin/bash
# usage: tools/kani_time.sh <prop> <out-log> <per-harness-timeout-s> <harness>...   (run in background; never blocks the shell)
prop=$1; out=$2; tmo=$3; shift 3
work=$(mktemp -d /tmp/ktime_XXXX)
cd /verif && python3 - "$prop" "$work" <<'PY'
import sys, importlib.machinery, importlib.util
loader = importlib.machinery.SourceFileLoader('vchk','/verif/vchk'); spec=importlib.util.spec_from_loader('vchk',loader); m=importlib.util.module_from_spec(spec); loader.exec_module(m)
print(m.prepare_kani_scratch(sys.argv[2], m.kani_files(sys.argv[1]), sys.argv[1])[0])
PY
cd $work/kani_repo || exit 1
for h in "$@"; do
  s=$(date +%s)
  res=$(CARGO_NET_OFFLINE=true CARGO_TARGET_DIR=$work/kani_target cargo kani --lib -Z function-contracts -Z stubbing -Z unstable-options --harness-timeout ${tmo}s --harness $h --output-format terse 2>&1 | grep -E "VERIFICATION:-|of [0-9]+ failed|error\[|error:|TIMEOUT|timed out" | tr '\n' ' ')
  e=$(date +%s)
  echo "$h $((e-s))s $res" >> $out
done
echo DONE >> $out
rm -rf $work
