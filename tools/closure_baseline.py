#!/usr/bin/env python3
"""Writes contracts/closures.json: per unit and extracted function, the number of closures WITHOUT a contract that are handed to something whose
contract may depend on what they return (tools/vx.py opaque_closures), as found on the tree the units were written against.  vchk compares the
current count with it: a failed obligation in a function that now has MORE such closures is classified undecided (the installed Verus does not
infer closure postconditions), never a violation.  Run after adding or changing a unit; the file is committed."""
import sys, glob, json
sys.path.insert(0, '/verif/tools')
import vx
base = {}
for t in sorted(glob.glob('/verif/contracts/*.vx')):
    text, rep = vx.build(t)
    d = {ex['item']: ex['opaque_closures'] for ex in rep['extracts'] if ex.get('opaque_closures')}
    if d:
        base[rep['unit']] = d
json.dump(base, open('/verif/contracts/closures.json', 'w'), indent=1, sort_keys=True)
print('closures.json:', sum(len(v) for v in base.values()), 'function(s) with opaque closures on the baseline tree')
