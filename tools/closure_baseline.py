#!/usr/bin/env python3
"""Writes contracts/closures.json: per unit and extracted function, the number of closures WITHOUT a contract that are handed to something whose
contract may depend on what they return (tools/vx.py opaque_closures), as found on the tree the units were written against.  vchk compares the
current count with it: a failed obligation in a function that now has MORE such closures is classified undecided (the installed Verus does not
infer closure postconditions), never a violation.  Run after adding or changing a unit; the file is committed."""
import sys, glob, json
sys.path.insert(0, __import__('os').path.dirname(__import__('os').path.abspath(__file__)))
import vx
base = {}
for t in sorted(glob.glob(__import__('os').path.join(__import__('os').path.dirname(__import__('os').path.abspath(__file__)), '..', 'contracts', '*.vx'))):
    text, rep = vx.build(t)
    d = {ex['item']: dict(opaque=ex.get('opaque_closures', 0), bit_div=ex.get('bit_div_ops', [0, 0])) for ex in rep['extracts']
         if ex.get('opaque_closures') or any(ex.get('bit_div_ops', [0, 0]))}
    if d:
        base[rep['unit']] = d
json.dump(base, open(__import__('os').path.join(__import__('os').path.dirname(__import__('os').path.abspath(__file__)), '..', 'contracts', 'closures.json'), 'w'), indent=1, sort_keys=True)
print('closures.json:', sum(len(v) for v in base.values()), 'function(s) with closures without contract, bare loops, bit-level or division operators on the baseline tree')
