#!/bin/bash
# usage: tools/confirm_seed.sh <worktree> <mutation-dir-name> ; confirms a sub-agent's mutation independently.
# Output: lines CONFIRM <what>=<ok|FAIL>
wt=$1; n=$2; m=$wt/mutations/$n
export CARGO_TARGET_DIR=$wt/target
cd $wt || exit 9
git checkout -- src tests 2>/dev/null
run_demo() { # prints pass/fail
  if [ -f $m/demo.rs ]; then
    cp $m/demo.rs examples/vseed_demo.rs
    if timeout 600 cargo run --offline -q --example vseed_demo >/dev/null 2>&1; then echo pass; else echo fail; fi
    rm -f examples/vseed_demo.rs
  elif [ -f $m/demo.diff ]; then
    git apply $m/demo.diff || { echo applyerr; return; }
    names=$(grep -E '^\+\s*fn (demo_|[a-z_0-9]+)\(' $m/demo.diff | sed -E 's/^\+\s*fn ([a-z_0-9A-Z]+)\(.*/\1/' | sort -u)
    ok=pass
    out=$(timeout 900 cargo test --offline --lib 2>&1 | grep -E "^test result")
    echo "$out" | grep -q "0 failed" || ok=fail
    git apply -R $m/demo.diff
    echo $ok
  else echo nodemo; fi
}
echo "== $wt $n"
echo "CONFIRM demo_without_patch=$(run_demo)"
git apply $m/patch.diff || { echo "CONFIRM apply=FAIL"; exit 1; }
if timeout 1200 cargo test --workspace --no-fail-fast --offline 2>&1 | grep -E "^test result" | grep -vq " 0 failed"; then echo "CONFIRM suite_with_patch=FAIL"; else echo "CONFIRM suite_with_patch=ok"; fi
echo "CONFIRM demo_with_patch=$(run_demo)"
git checkout -- src tests 2>/dev/null
