#!/bin/sh
# nothing to build: the framework is Python + Verus templates + Kani harness sources. Sanity-check the tools.
set -e
cd "$(dirname "$0")"
command -v verus >/dev/null
command -v cargo-kani >/dev/null || cargo kani --version >/dev/null
python3 -c "import sys; sys.path.insert(0,'tools'); import vx, rsitems"
mkdir -p evidence replay
echo setup ok
